# sourced by every script: offline Go environment that works in this sandbox
export GOFLAGS=-mod=mod GOPROXY=off GOSUMDB=off GOTOOLCHAIN=local
export PATH=/opt/veriftools/go1.26.8/bin:$PATH
export CARGO_NET_OFFLINE=true PIP_NO_INDEX=1
