#!/bin/sh
# Builds the driver and the instrumenter offline from files on disk (module cache only).
set -e
cd "$(dirname "$0")"
. ./env.sh
mkdir -p bin evidence replays
go build -o bin/verif ./cmd/verif
go build -o bin/verif-instrument ./cmd/verif-instrument
echo "verif: setup ok"
