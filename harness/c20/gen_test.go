package c20

import (
	"encoding/hex"
	"fmt"
	"strings"
	"sync"

	"github.com/php-any/origami/verifharness/hx"
	"github.com/php-any/origami/verifsim"
)

// Programs are assembled from parts. A part descriptor is "kind|index|arg…";
// assemble turns descriptors into code plus the output lines whose content the
// generator knows from construction (insertion order).

var nameStock = []string{"zeta", "alpha", "mid", "beta", "omega", "kappa", "delta", "yod", "chi", "ab", "b", "Z", "a1", "k10", "k9"}

func pickNames(r *verifsim.Rng, n int) []string {
	p := r.Perm(len(nameStock))
	var out []string
	for i := 0; i < n; i++ {
		out = append(out, nameStock[p[i]])
	}
	return out
}

var (
	haveOnce sync.Once
	haveFn   map[string]bool
)

func have(fns ...string) bool {
	haveOnce.Do(func() {
		haveFn = map[string]bool{}
		env := hx.NewEnv()
		for _, f := range env.VM.AllFuncs() {
			haveFn[strings.ToLower(f.GetName())] = true
		}
	})
	for _, f := range fns {
		if !haveFn[strings.ToLower(f)] {
			return false
		}
	}
	return true
}

var arrFns = []struct {
	name string
	need []string
	code string
}{
	{"array_merge", []string{"array_merge"}, `json_encode(array_merge(["q"=>1,"b"=>2,"z"=>3], ["b"=>9,"a"=>4]))`},
	{"array_merge_recursive", []string{"array_merge_recursive"}, `json_encode(array_merge_recursive(["q"=>1,"b"=>["z"=>1,"a"=>2],"m"=>3], ["b"=>["y"=>3,"a"=>4],"c"=>5,"q"=>6]))`},
	{"array_replace_recursive", []string{"array_replace_recursive"}, `json_encode(array_replace_recursive(["q"=>1,"b"=>["z"=>1,"a"=>2],"m"=>3], ["b"=>["y"=>3,"a"=>4],"c"=>5]))`},
	{"array_replace_nested", []string{"array_replace"}, `json_encode(array_replace(["q"=>["z"=>1,"a"=>2],"b"=>2], ["m"=>["y"=>1,"c"=>2]]))`},
	{"array_intersect", []string{"array_intersect"}, `json_encode(array_intersect(["q"=>"x","b"=>"y","z"=>"w","a"=>"x"], ["k"=>"x","j"=>"w"]))`},
	{"array_intersect_assoc", []string{"array_intersect_assoc"}, `json_encode(array_intersect_assoc(["q"=>"x","b"=>"y","z"=>"w"], ["z"=>"w","q"=>"x","n"=>"y"]))`},
	{"array_diff", []string{"array_diff"}, `json_encode(array_diff(["q"=>"x","b"=>"y","z"=>"w","a"=>"v"], ["k"=>"y"]))`},
	{"array_diff_assoc", []string{"array_diff_assoc"}, `json_encode(array_diff_assoc(["q"=>"x","b"=>"y","z"=>"w","a"=>"v"], ["b"=>"y"]))`},
	{"array_pad_assoc", []string{"array_pad"}, `json_encode(array_pad(["q"=>1,"b"=>2,"z"=>3], 5, 0))`},
	{"array_chunk_assoc", []string{"array_chunk"}, `json_encode(array_chunk(["q"=>1,"b"=>2,"z"=>3,"a"=>4], 2, true))`},
	{"array_reduce_assoc", []string{"array_reduce"}, `array_reduce(["q"=>"x","b"=>"y","z"=>"w"], function($c, $v) { return $c . $v; }, "")`},
	{"array_shift_assoc", []string{"array_shift"}, `(function() { $a = ["q"=>1,"b"=>2,"z"=>3]; $f = array_shift($a); return $f . json_encode($a); })()`},
	{"array_pop_assoc", []string{"array_pop"}, `(function() { $a = ["q"=>1,"b"=>2,"z"=>3]; $f = array_pop($a); return $f . json_encode($a); })()`},
	{"array_unshift_assoc", []string{"array_unshift"}, `(function() { $a = ["q"=>1,"b"=>2]; array_unshift($a, 9); return json_encode($a); })()`},
	{"array_splice_assoc", []string{"array_splice"}, `(function() { $a = ["q"=>1,"b"=>2,"z"=>3,"a"=>4]; array_splice($a, 1, 1); return json_encode($a); })()`},
	{"array_key_exists_first", []string{"array_search"}, `array_search("x", ["q"=>"x","b"=>"x","z"=>"x"])`},
	{"current_key_next", []string{"current", "key", "next"}, `(function() { $a = ["q"=>1,"b"=>2,"z"=>3]; $s = key($a) . current($a); next($a); return $s . key($a) . current($a); })()`},
	{"end_reset", []string{"end", "reset"}, `(function() { $a = ["q"=>1,"b"=>2,"z"=>3]; return end($a) . reset($a); })()`},
	{"extract_order", []string{"extract", "get_defined_vars"}, `(function() { extract(["q"=>1,"b"=>2,"z"=>3]); return $q . $b . $z; })()`},
	{"array_multisort", []string{"array_multisort"}, `(function() { $a = [3, 1, 2]; $b = ["c", "a", "b"]; array_multisort($a, $b); return json_encode([$a, $b]); })()`},
	{"natsort", []string{"natsort"}, `(function() { $a = ["q"=>"img12","b"=>"img10","z"=>"img2"]; natsort($a); return json_encode($a); })()`},
	{"krsort", []string{"krsort"}, `(function() { $a = ["q"=>1,"b"=>2,"z"=>3]; krsort($a); return json_encode($a); })()`},
	{"sort_assoc_values_ties", []string{"sort"}, `(function() { $a = ["q"=>"x","b"=>"x","z"=>"a"]; sort($a); return json_encode($a); })()`},
	{"str_word_count", []string{"count_chars"}, `json_encode(count_chars("hello world", 1))`},
	{"parse_str", []string{"parse_str"}, `(function() { parse_str("q=1&b=2&z[]=3&z[]=4&a[k]=5", $out); return json_encode($out); })()`},
	{"array_flip", []string{"array_flip"}, `json_encode(array_flip(["q"=>"x","b"=>"y","z"=>"w"]))`},
	{"array_unique", []string{"array_unique"}, `json_encode(array_unique(["q"=>1,"b"=>2,"z"=>1,"a"=>2,"m"=>3]))`},
	{"array_count_values", []string{"array_count_values"}, `json_encode(array_count_values(["x","b","x","a","b","x"]))`},
	{"array_combine", []string{"array_combine"}, `json_encode(array_combine(["q","b","z"], [1,2,3]))`},
	{"array_diff_key", []string{"array_diff_key"}, `json_encode(array_diff_key(["q"=>1,"b"=>2,"z"=>3,"a"=>4], ["b"=>0]))`},
	{"array_intersect_key", []string{"array_intersect_key"}, `json_encode(array_intersect_key(["q"=>1,"b"=>2,"z"=>3,"a"=>4], ["z"=>0,"q"=>0,"a"=>0]))`},
	{"array_filter", []string{"array_filter"}, `json_encode(array_filter(["q"=>1,"b"=>0,"z"=>3,"a"=>0,"m"=>5]))`},
	{"array_map", []string{"array_map"}, `json_encode(array_map(function($v) { return $v * 2; }, ["q"=>1,"b"=>2,"z"=>3]))`},
	{"array_keys", []string{"array_keys"}, `json_encode(array_keys(["q"=>1,"b"=>2,"z"=>3,"a"=>4]))`},
	{"array_values", []string{"array_values"}, `json_encode(array_values(["q"=>1,"b"=>2,"z"=>3,"a"=>4]))`},
	{"array_reverse", []string{"array_reverse"}, `json_encode(array_reverse(["q"=>1,"b"=>2,"z"=>3], true))`},
	{"array_slice", []string{"array_slice"}, `json_encode(array_slice(["q"=>1,"b"=>2,"z"=>3,"a"=>4], 1, 2, true))`},
	{"array_replace", []string{"array_replace"}, `json_encode(array_replace(["q"=>1,"b"=>2,"z"=>3], ["z"=>9,"a"=>4]))`},
	{"array_column", []string{"array_column"}, `json_encode(array_column([["id"=>"q","v"=>1],["id"=>"b","v"=>2],["id"=>"z","v"=>3]], "v", "id"))`},
	{"array_fill_keys", []string{"array_fill_keys"}, `json_encode(array_fill_keys(["q","b","z","a"], 0))`},
	{"array_walk", []string{"array_walk"}, `(function() { $s = ""; $a = ["q"=>1,"b"=>2,"z"=>3]; array_walk($a, function($v, $k) use (&$s) { $s .= $k . $v; }); return $s; })()`},
	{"array_search", []string{"array_search"}, `json_encode(array_search(2, ["q"=>2,"b"=>2,"z"=>2]))`},
	{"in_array_keys", []string{"array_key_first", "array_key_last"}, `array_key_first(["q"=>1,"b"=>2,"z"=>3]) . array_key_last(["q"=>1,"b"=>2,"z"=>3])`},
	{"array_sum_product", []string{"array_sum"}, `array_sum(["q"=>1,"b"=>2,"z"=>3])`},
	{"implode_assoc", []string{"implode"}, `implode(",", ["q"=>"x","b"=>"y","z"=>"w"])`},
	// optional arguments and less usual forms of the same builtins (every branch that walks a map is a candidate)
	{"array_keys_search", []string{"array_keys"}, `json_encode(array_keys(["q"=>1,"b"=>2,"z"=>1,"a"=>1], 1))`},
	{"array_keys_search_strict", []string{"array_keys"}, `json_encode(array_keys(["q"=>"1","b"=>1,"z"=>1,"a"=>"1"], 1, true))`},
	{"array_slice_preserve", []string{"array_slice"}, `json_encode(array_slice(["q"=>1,"b"=>2,"z"=>3,"a"=>4], 1, 2, true))`},
	{"array_slice_neg", []string{"array_slice"}, `json_encode(array_slice(["q"=>1,"b"=>2,"z"=>3,"a"=>4], -3, 2))`},
	{"array_reverse_preserve", []string{"array_reverse"}, `json_encode(array_reverse(["q"=>1,"b"=>2,"z"=>3], true))`},
	{"array_filter_use_key", []string{"array_filter"}, `json_encode(array_filter(["q"=>1,"b"=>2,"z"=>3,"a"=>4], function($k) { return $k != "b"; }, ARRAY_FILTER_USE_KEY))`},
	{"array_filter_use_both", []string{"array_filter"}, `json_encode(array_filter(["q"=>1,"b"=>2,"z"=>3,"a"=>4], function($v, $k) { return $v > 1 && $k != "z"; }, ARRAY_FILTER_USE_BOTH))`},
	{"array_filter_nocb", []string{"array_filter"}, `json_encode(array_filter(["q"=>1,"b"=>0,"z"=>3,"a"=>null]))`},
	{"array_map_two", []string{"array_map"}, `json_encode(array_map(function($x, $y) { return $x . $y; }, ["q"=>"a","b"=>"b"], ["z"=>"c","a"=>"d"]))`},
	{"array_search_assoc", []string{"array_search"}, `json_encode(array_search(1, ["q"=>2,"b"=>1,"z"=>1,"a"=>1]))`},
	{"in_array_strict", []string{"in_array"}, `json_encode(in_array("1", ["q"=>1,"b"=>"1"], true))`},
	{"array_unique_flags", []string{"array_unique"}, `json_encode(array_unique(["q"=>"7","b"=>"07","z"=>"7.0","a"=>"x"], SORT_NUMERIC))`},
	{"array_flip", []string{"array_flip"}, `json_encode(array_flip(["q"=>"x","b"=>"y","z"=>"x"]))`},
	{"array_fill_keys", []string{"array_fill_keys"}, `json_encode(array_fill_keys(["q","b","z"], 0))`},
	{"array_pad_assoc", []string{"array_pad"}, `json_encode(array_pad(["q"=>1,"b"=>2], 4, 0))`},
	{"json_encode_pretty", []string{"json_encode"}, `json_encode(["q"=>1,"b"=>["z"=>2,"a"=>3]], JSON_PRETTY_PRINT)`},
	{"http_build_query", []string{"http_build_query"}, `http_build_query(["q"=>1,"b"=>2,"z"=>["k"=>3,"a"=>4]])`},
	{"compact_vars", []string{"compact"}, `(function() { $q = 1; $b = 2; $z = 3; return json_encode(compact("q", "b", "z")); })()`},
	{"strtr_assoc", []string{"strtr"}, `strtr("hello world", ["hello"=>"HI","hi"=>"X","world"=>"W","o"=>"0"])`},
	{"var_export_nested", []string{"var_export"}, `var_export(["q"=>1,"b"=>["z"=>2,"a"=>3]], true)`},
	{"serialize_nested", []string{"serialize"}, `serialize(["q"=>1,"b"=>["z"=>2,"a"=>3]])`},
	{"min_max_assoc", []string{"min"}, `json_encode([min(["q"=>3,"b"=>1,"z"=>1]), max(["q"=>3,"b"=>3,"z"=>1])])`},
	{"usort_rows_ties", []string{"usort"}, `(function() { $a = [["k"=>"q","v"=>1],["k"=>"b","v"=>1],["k"=>"z","v"=>0]]; usort($a, function($x, $y) { return $x["v"] - $y["v"]; }); return json_encode($a); })()`},
	// sort flags: under SORT_NUMERIC several keys compare equal ("07" and "7"; every non-numeric key is 0)
	{"ksort_numeric_ties", []string{"ksort"}, `(function() { $a = ["x"=>1,"07"=>2,"y"=>3,"7"=>4,"b"=>5]; ksort($a, SORT_NUMERIC); return json_encode($a); })()`},
	{"krsort_numeric_ties", []string{"krsort"}, `(function() { $a = ["x"=>1,"07"=>2,"y"=>3,"7"=>4,"b"=>5]; krsort($a, SORT_NUMERIC); return json_encode($a); })()`},
	{"ksort_string_flag", []string{"ksort"}, `(function() { $a = ["x"=>1,"07"=>2,"y"=>3,"7"=>4,"b"=>5]; ksort($a, SORT_STRING); return json_encode($a); })()`},
	{"uksort_ties", []string{"uksort"}, `(function() { $a = ["x"=>1,"07"=>2,"y"=>3,"7"=>4,"b"=>5]; uksort($a, function($p, $q) { return (int)$p - (int)$q; }); return json_encode($a); })()`},
	{"ksort", []string{"ksort"}, `(function() { $a = ["q"=>1,"b"=>2,"z"=>3,"a"=>4]; ksort($a); return json_encode($a); })()`},
	{"asort_ties", []string{"asort"}, `(function() { $a = ["q"=>1,"b"=>1,"z"=>0,"a"=>1,"m"=>0]; asort($a); return json_encode($a); })()`},
	{"arsort_ties", []string{"arsort"}, `(function() { $a = ["q"=>1,"b"=>1,"z"=>0,"a"=>1,"m"=>0]; arsort($a); return json_encode($a); })()`},
	{"usort_ties", []string{"usort"}, `(function() { $a = [["k"=>"q","v"=>1],["k"=>"b","v"=>1],["k"=>"z","v"=>0]]; usort($a, function($x, $y) { return $x["v"] - $y["v"]; }); return json_encode($a); })()`},
	{"uasort_ties", []string{"uasort"}, `(function() { $a = ["q"=>1,"b"=>1,"z"=>0,"a"=>1]; uasort($a, function($x, $y) { return $x - $y; }); return json_encode($a); })()`},
	{"strtr", []string{"strtr"}, `strtr("abcabcab", ["a"=>"b","b"=>"c","ab"=>"X","abc"=>"Y"])`},
	{"str_replace_arr", []string{"str_replace"}, `str_replace(["a","b","c"], ["b","c","d"], "abcabc")`},
	{"http_build_query", []string{"http_build_query"}, `http_build_query(["q"=>1,"b"=>2,"z"=>"x y","a"=>["n"=>1,"m"=>2]])`},
	{"compact", []string{"compact"}, `(function() { $q = 1; $b = 2; $z = 3; return json_encode(compact("q", "b", "z")); })()`},
	{"var_export", []string{"var_export"}, `var_export(["q"=>1,"b"=>[3,4],"z"=>"s"], true)`},
	{"print_r", []string{"print_r"}, `print_r(["q"=>1,"b"=>[3,4],"z"=>"s"], true)`},
	{"serialize", []string{"serialize"}, `serialize(["q"=>1,"b"=>[3,4],"z"=>"s"])`},
	{"get_class_methods", []string{"get_class_methods"}, `json_encode(get_class_methods("Meth"))`},
	{"get_class_vars", []string{"get_class_vars"}, `json_encode(get_class_vars("Meth"))`},
	{"get_object_vars_dyn", []string{"get_object_vars"}, `(function() { $o = new stdClass(); $o->q = 1; $o->b = 2; $o->z = 3; return json_encode(get_object_vars($o)); })()`},
	{"sprintf_vsprintf", []string{"vsprintf"}, `vsprintf("%s-%s-%s", ["q"=>"x","b"=>"y","z"=>"w"])`},
	{"max_min_assoc", []string{"max", "min"}, `max(["q"=>1,"b"=>5,"z"=>3]) . min(["q"=>1,"b"=>5,"z"=>3])`},
	{"range_keys", []string{"array_flip", "range"}, `json_encode(array_flip(range("d", "a")))`},
	{"case_insensitive_class", nil, `(new meth())->m2()`},
	{"method_case", nil, `(new Meth())->M1()`},
	{"static_props", nil, `Meth::$s2 . Meth::$s1 . Meth::K2 . Meth::K1`},
	{"instanceof_iface", nil, `((new Impl()) instanceof IfB ? "y" : "n") . ((new Impl()) instanceof IfA ? "y" : "n")`},
	{"class_implements", []string{"class_implements"}, `json_encode(class_implements("Impl"))`},
	{"json_roundtrip", []string{"json_decode"}, `json_encode(json_decode('{"q":1,"b":{"z":2,"a":3},"m":[{"y":1,"c":2}]}'))`},
	{"json_roundtrip_assoc", []string{"json_decode"}, `json_encode(json_decode('{"q":1,"b":{"z":2,"a":3},"m":[{"y":1,"c":2}]}', true))`},
	{"json_pretty", []string{"json_encode"}, `json_encode(["q"=>1,"b"=>["z"=>2,"a"=>3]], JSON_PRETTY_PRINT)`},
	{"list_destructure", nil, `(function() { ["q"=>$x, "b"=>$y] = ["b"=>2, "q"=>1]; return $x . $y; })()`},
	{"spread_assoc", nil, `json_encode([...["q"=>1,"b"=>2], ...["z"=>3,"b"=>9]])`},
	{"nested_foreach_modify", nil, `(function() { $a = ["q"=>1,"b"=>2,"z"=>3]; $s = ""; foreach ($a as $k => $v) { if ($k == "q") { $a["n"] = 9; } $s .= $k; } return $s . count($a); })()`},
	{"unset_then_add", nil, `(function() { $a = ["q"=>1,"b"=>2,"z"=>3]; unset($a["b"]); $a["b"] = 7; return json_encode($a); })()`},
	{"clone_obj_props", nil, `(function() { $o = new Meth(); $c = clone $o; $c->extra = 1; return json_encode($c); })()`},
	// the same library functions on arrays of a few hundred elements (a function may take another path above some size)
	{"big_array_diff", []string{"array_diff", "range"}, `json_encode(array_diff(range(1, 200), [3, 50, 199]))`},
	{"big_array_diff_keyed", []string{"array_diff"}, `json_encode(array_diff((function() { $a = []; for ($i = 0; $i < 300; $i++) { $a["k" . (($i * 37) % 300)] = ($i * 53) % 97; } return $a; })(), [5, 17, 96]))`},
	{"big_array_diff_key", []string{"array_diff_key"}, `json_encode(array_diff_key((function() { $a = []; for ($i = 0; $i < 300; $i++) { $a["k" . (($i * 37) % 300)] = ($i * 53) % 97; } return $a; })(), ["k7" => 1, "k150" => 1]))`},
	{"big_array_intersect", []string{"array_intersect", "range"}, `json_encode(array_intersect(range(1, 250), range(100, 400)))`},
	{"big_array_intersect_key", []string{"array_intersect_key"}, `json_encode(array_intersect_key((function() { $a = []; for ($i = 0; $i < 300; $i++) { $a["k" . (($i * 37) % 300)] = ($i * 53) % 97; } return $a; })(), (function() { $a = []; for ($i = 0; $i < 300; $i++) { $a["k" . (($i * 37) % 300)] = ($i * 53) % 97; } return $a; })()))`},
	{"big_array_unique", []string{"array_unique"}, `json_encode(array_unique((function() { $a = []; for ($i = 0; $i < 300; $i++) { $a["k" . (($i * 37) % 300)] = ($i * 53) % 97; } return $a; })()))`},
	{"big_array_flip", []string{"array_flip"}, `json_encode(array_flip((function() { $a = []; for ($i = 0; $i < 300; $i++) { $a["k" . (($i * 37) % 300)] = ($i * 53) % 97; } return $a; })()))`},
	{"big_array_count_values", []string{"array_count_values"}, `json_encode(array_count_values((function() { $a = []; for ($i = 0; $i < 300; $i++) { $a["k" . (($i * 37) % 300)] = ($i * 53) % 97; } return $a; })()))`},
	{"big_array_merge", []string{"array_merge"}, `json_encode(array_merge((function() { $a = []; for ($i = 0; $i < 300; $i++) { $a["k" . (($i * 37) % 300)] = ($i * 53) % 97; } return $a; })(), ["k3" => -1, "zz" => -2]))`},
	{"big_array_filter", []string{"array_filter"}, `json_encode(array_filter((function() { $a = []; for ($i = 0; $i < 300; $i++) { $a["k" . (($i * 37) % 300)] = ($i * 53) % 97; } return $a; })(), function($v) { return $v % 3 == 0; }))`},
	{"big_array_map_keys", []string{"array_map", "array_keys"}, `json_encode(array_map(function($k) { return $k . "!"; }, array_keys((function() { $a = []; for ($i = 0; $i < 300; $i++) { $a["k" . (($i * 37) % 300)] = ($i * 53) % 97; } return $a; })())))`},
	{"big_array_search_keys", []string{"array_keys"}, `json_encode(array_keys((function() { $a = []; for ($i = 0; $i < 300; $i++) { $a["k" . (($i * 37) % 300)] = ($i * 53) % 97; } return $a; })(), 5))`},
	{"big_array_reverse", []string{"array_reverse"}, `json_encode(array_reverse((function() { $a = []; for ($i = 0; $i < 300; $i++) { $a["k" . (($i * 37) % 300)] = ($i * 53) % 97; } return $a; })(), true))`},
	{"big_array_slice", []string{"array_slice"}, `json_encode(array_slice((function() { $a = []; for ($i = 0; $i < 300; $i++) { $a["k" . (($i * 37) % 300)] = ($i * 53) % 97; } return $a; })(), 100, 150, true))`},
	{"big_array_column", []string{"array_column", "array_map"}, `json_encode(array_column(array_map(function($v) { return ["id" => "r" . $v, "v" => $v]; }, range(1, 200)), "v", "id"))`},
	{"big_array_combine", []string{"array_combine", "range"}, `json_encode(array_combine(range(200, 1), range(1, 200)))`},
	{"big_array_fill_keys", []string{"array_fill_keys", "array_keys"}, `json_encode(array_fill_keys(array_keys((function() { $a = []; for ($i = 0; $i < 300; $i++) { $a["k" . (($i * 37) % 300)] = ($i * 53) % 97; } return $a; })()), 0))`},
	{"big_array_replace", []string{"array_replace"}, `json_encode(array_replace((function() { $a = []; for ($i = 0; $i < 300; $i++) { $a["k" . (($i * 37) % 300)] = ($i * 53) % 97; } return $a; })(), ["k299" => -1, "new" => -2]))`},
	{"big_array_unique_list", []string{"array_unique", "array_map", "range"}, `json_encode(array_unique(array_map(function($i) { return $i % 140; }, range(1, 300))))`},
	{"big_in_array_object", nil, `(function() { $o = new stdClass(); for ($i = 0; $i < 200; $i++) { $p = "p" . (($i * 37) % 200); $o->$p = $i; } return json_encode($o) . count(get_object_vars($o)); })()`},
	// JSON documents whose KEYS use every escape the grammar has (\/ is what PHP's own json_encode writes for a slash)
	{"json_escaped_keys_obj", []string{"json_decode"}, `json_encode(json_decode('{"q\/z":1,"b\/a":2,"m":3,"\ud83d\ude00k":4,"a\u0041":5,"t\tb":6,"z\\y":7,"c\"d":8,"y\bf":9,"n\nl":10}'))`},
	{"json_escaped_keys_vars", []string{"json_decode", "get_object_vars"}, `implode(",", array_keys(get_object_vars(json_decode('{"q\/z":1,"b\/a":2,"m":3,"\ud83d\ude00k":4,"k\/k":5,"a":6}'))))`},
	{"json_escaped_keys_nested", []string{"json_decode"}, `json_encode(json_decode('{"o":{"x\/y":1,"w\/v":2,"u":3,"\ud83d\ude03":4},"l":[{"s\/t":1,"r\/q":2,"p":3}]}'))`},
	{"json_escaped_keys_assoc", []string{"json_decode"}, `json_encode(json_decode('{"q\/z":1,"b\/a":2,"m":3,"\ud83d\ude00k":4}', true))`},
	{"big_str_word_count", []string{"array_count_values", "explode"}, `json_encode(array_count_values(explode(" ", str_repeat("q b z a m y c n ", 40))))`},
}

const fixedPrelude = `<?php
interface IfA { }
interface IfB { }
class Impl implements IfB, IfA { }
class Meth {
  public $p2 = 2;
  public $p1 = 1;
  public static $s2 = "s2";
  public static $s1 = "s1";
  const K2 = "k2";
  const K1 = "k1";
  public function m2() { return "m2"; }
  public function m1() { return "m1"; }
  private function hidden() { return "h"; }
}
`

func genProgram(r *verifsim.Rng) (src, expect string, parts []string) {
	n := 1 + r.Intn(5)
	for i := 0; i < n; i++ {
		switch k := r.Intn(10); {
		case k < 2:
			n := 2 + r.Intn(5)
			if r.Intn(5) == 0 {
				n = 9 + r.Intn(6) // objects with many properties
			}
			parts = append(parts, fmt.Sprintf("objprops|%d|%s", i, strings.Join(pickNames(r, n), ",")))
		case k < 3:
			parts = append(parts, fmt.Sprintf("inherit|%d|%s|%s", i, strings.Join(pickNames(r, 1+r.Intn(3)), ","), strings.Join(pickNames(r, 1+r.Intn(3)), ",")))
		case k < 4:
			parts = append(parts, fmt.Sprintf("dyn|%d|%s", i, strings.Join(pickNames(r, 2+r.Intn(5)), ",")))
		case k < 5:
			parts = append(parts, fmt.Sprintf("jsondec|%d|%s", i, strings.Join(pickNames(r, 2+r.Intn(5)), ",")))
		case k < 6:
			if r.Intn(5) == 0 {
				// a LARGE associative array (built in a loop) edited by unset / overwrite / add:
				// containers that change representation or bookkeeping above some size
				size := verifsim.Pick(r, []int{64, 65, 100, 130, 500})
				var ops []string
				for e := 0; e < 2+r.Intn(5); e++ {
					switch r.Intn(3) {
					case 0:
						ops = append(ops, fmt.Sprintf("u:k%d", r.Intn(size)))
					case 1:
						ops = append(ops, fmt.Sprintf("s:k%d", r.Intn(size)))
					default:
						ops = append(ops, fmt.Sprintf("a:fresh%d", e))
					}
				}
				// (how the array starts decides its representation: empty literal, or a literal with a string key)
				parts = append(parts, fmt.Sprintf("mutbig|%d|%d|%s|%d", i, size, strings.Join(ops, ","), r.Intn(2)))
				break
			}
			if r.Intn(2) == 0 {
				// an associative array edited by a sequence of unset / overwrite / add
				names := pickNames(r, 4+r.Intn(6))
				var ops []string
				for e := 0; e < 1+r.Intn(4); e++ {
					n := names[r.Intn(len(names))]
					ops = append(ops, verifsim.Pick(r, []string{"u", "u", "s", "a"})+":"+n)
				}
				parts = append(parts, fmt.Sprintf("mutate|%d|%s|%s", i, strings.Join(names[:len(names)-2], ","), strings.Join(ops, ",")))
				break
			}
			names := pickNames(r, 2+r.Intn(5))
			if r.Intn(4) == 0 {
				// numeric-looking string keys keep insertion order too
				names = append(names, verifsim.Pick(r, []string{"10", "9", "007", "1.5", "-3"}), verifsim.Pick(r, []string{"2", "100", "08"}))
			}
			parts = append(parts, fmt.Sprintf("arr|%d|%s", i, strings.Join(names, ",")))
		default:
			parts = append(parts, fmt.Sprintf("arrfn|%d|%d", i, r.Intn(len(arrFns))))
		}
	}
	if r.Intn(8) == 0 {
		parts = append(parts, fmt.Sprintf("throw|%d", n))
	}
	src, expect = assemble(parts)
	return
}

func assemble(parts []string) (string, string) {
	var b, e strings.Builder
	b.WriteString(fixedPrelude)
	for _, p := range parts {
		f := strings.Split(p, "|")
		kind, i := f[0], f[1]
		var names []string
		if len(f) > 2 {
			names = strings.Split(f[2], ",")
		}
		pairs := func(sep, kv string) string {
			var s []string
			for k, n := range names {
				s = append(s, fmt.Sprintf(kv, n, k+1))
			}
			return strings.Join(s, sep)
		}
		switch kind {
		case "objprops":
			fmt.Fprintf(&b, "class C%s {\n", i)
			for k, n := range names {
				fmt.Fprintf(&b, "  public $%s = %d;\n", n, k+1)
			}
			b.WriteString("}\n")
			fmt.Fprintf(&b, "echo \"objjson%s=\", json_encode(new C%s()), \"\\n\";\n", i, i)
			fmt.Fprintf(&e, "objjson%s={%s}\n", i, pairs(",", "%q:%d"))
			fmt.Fprintf(&b, "echo \"objeach%s=\"; foreach (new C%s() as $k => $v) { echo $k, \":\", $v, \",\"; } echo \"\\n\";\n", i, i)
			fmt.Fprintf(&e, "objeach%s=%s\n", i, pairs("", "%s:%d,"))
			if have("get_object_vars", "array_keys", "implode") {
				fmt.Fprintf(&b, "echo \"objvars%s=\", implode(\",\", array_keys(get_object_vars(new C%s()))), \"\\n\";\n", i, i)
				fmt.Fprintf(&e, "objvars%s=%s\n", i, strings.Join(names, ","))
			}
		case "inherit":
			child := strings.Split(f[3], ",")
			fmt.Fprintf(&b, "class P%s {\n", i)
			for k, n := range names {
				fmt.Fprintf(&b, "  public $p_%s = %d;\n", n, k+1)
			}
			fmt.Fprintf(&b, "}\nclass D%s extends P%s {\n", i, i)
			for k, n := range child {
				fmt.Fprintf(&b, "  public $c_%s = %d;\n", n, k+10)
			}
			b.WriteString("}\n")
			fmt.Fprintf(&b, "echo \"inhjson%s=\", json_encode(new D%s()), \"\\n\";\n", i, i)
			fmt.Fprintf(&b, "echo \"inheach%s=\"; foreach (new D%s() as $k => $v) { echo $k, \":\", $v, \",\"; } echo \"\\n\";\n", i, i)
		case "dyn":
			fmt.Fprintf(&b, "$dyn%s = new stdClass();\n", i)
			for k, n := range names {
				fmt.Fprintf(&b, "$dyn%s->%s = %d;\n", i, n, k+1)
			}
			fmt.Fprintf(&b, "echo \"dynjson%s=\", json_encode($dyn%s), \"\\n\";\n", i, i)
			fmt.Fprintf(&e, "dynjson%s={%s}\n", i, pairs(",", "%q:%d"))
			fmt.Fprintf(&b, "echo \"dyneach%s=\"; foreach ($dyn%s as $k => $v) { echo $k, \":\", $v, \",\"; } echo \"\\n\";\n", i, i)
			fmt.Fprintf(&e, "dyneach%s=%s\n", i, pairs("", "%s:%d,"))
		case "jsondec":
			js := "{" + pairs(",", "%q:%d") + "}"
			fmt.Fprintf(&b, "$ja%s = json_decode('%s', true);\n", i, js)
			fmt.Fprintf(&b, "echo \"jdassoc%s=\"; foreach ($ja%s as $k => $v) { echo $k, \":\", $v, \",\"; } echo \"\\n\";\n", i, i)
			fmt.Fprintf(&e, "jdassoc%s=%s\n", i, pairs("", "%s:%d,"))
			fmt.Fprintf(&b, "$jo%s = json_decode('%s');\n", i, js)
			fmt.Fprintf(&b, "echo \"jdobj%s=\"; foreach ($jo%s as $k => $v) { echo $k, \":\", $v, \",\"; } echo \"\\n\";\n", i, i)
			fmt.Fprintf(&e, "jdobj%s=%s\n", i, pairs("", "%s:%d,"))
			fmt.Fprintf(&b, "echo \"jdre%s=\", json_encode($ja%s), \"\\n\";\n", i, i)
		case "arr":
			fmt.Fprintf(&b, "$arr%s = [%s];\n", i, pairs(", ", "%q => %d"))
			fmt.Fprintf(&b, "echo \"arreach%s=\"; foreach ($arr%s as $k => $v) { echo $k, \":\", $v, \",\"; } echo \"\\n\";\n", i, i)
			fmt.Fprintf(&e, "arreach%s=%s\n", i, pairs("", "%s:%d,"))
			fmt.Fprintf(&b, "echo \"arrjson%s=\", json_encode($arr%s), \"\\n\";\n", i, i)
			fmt.Fprintf(&e, "arrjson%s={%s}\n", i, pairs(",", "%q:%d"))
			if have("array_keys", "implode") {
				fmt.Fprintf(&b, "echo \"arrkeys%s=\", implode(\",\", array_keys($arr%s)), \"\\n\";\n", i, i)
				fmt.Fprintf(&e, "arrkeys%s=%s\n", i, strings.Join(names, ","))
			}
		case "mutbig":
			size := 0
			fmt.Sscan(f[2], &size)
			if len(f) > 4 && f[4] == "1" {
				fmt.Fprintf(&b, "$mb%s = [\"k0\" => 0]; for ($q = 1; $q < %d; $q++) { $mb%s[\"k\" . $q] = $q; }\n", i, size, i)
			} else {
				fmt.Fprintf(&b, "$mb%s = []; for ($q = 0; $q < %d; $q++) { $mb%s[\"k\" . $q] = $q; }\n", i, size, i)
			}
			var keys []string
			for q := 0; q < size; q++ {
				keys = append(keys, fmt.Sprintf("k%d", q))
			}
			for e, op := range strings.Split(f[3], ",") {
				kind, key, _ := strings.Cut(op, ":")
				pos := -1
				for j := range keys {
					if keys[j] == key {
						pos = j
					}
				}
				if kind == "u" {
					fmt.Fprintf(&b, "unset($mb%s[%q]);\n", i, key)
					if pos >= 0 {
						keys = append(keys[:pos], keys[pos+1:]...)
					}
				} else {
					fmt.Fprintf(&b, "$mb%s[%q] = %d;\n", i, key, 1000+e)
					if pos < 0 {
						keys = append(keys, key)
					}
				}
			}
			fmt.Fprintf(&b, "echo \"mbkeys%s=\", implode(\",\", array_keys($mb%s)), \"\\n\";\n", i, i)
			fmt.Fprintf(&e, "mbkeys%s=%s\n", i, strings.Join(keys, ","))
			fmt.Fprintf(&b, "echo \"mbeach%s=\"; foreach ($mb%s as $k => $v) { echo $k, \",\"; } echo \"\\n\";\n", i, i)
			fmt.Fprintf(&e, "mbeach%s=%s,\n", i, strings.Join(keys, ","))
		case "mutate":
			// reference model of array order: insertion order; overwriting keeps
			// the position; unset removes; adding an absent key appends
			fmt.Fprintf(&b, "$mu%s = [%s];\n", i, pairs(", ", "%q => %d"))
			type kv struct {
				k string
				v int
			}
			var model []kv
			for k, n := range names {
				model = append(model, kv{n, k + 1})
			}
			for e, op := range strings.Split(f[3], ",") {
				kind, key, _ := strings.Cut(op, ":")
				pos := -1
				for j := range model {
					if model[j].k == key {
						pos = j
					}
				}
				switch kind {
				case "u":
					fmt.Fprintf(&b, "unset($mu%s[%q]);\n", i, key)
					if pos >= 0 {
						model = append(model[:pos], model[pos+1:]...)
					}
				default: // "s" overwrite or "a" add: same statement, the model decides
					fmt.Fprintf(&b, "$mu%s[%q] = %d;\n", i, key, 100+e)
					if pos >= 0 {
						model[pos].v = 100 + e
					} else {
						model = append(model, kv{key, 100 + e})
					}
				}
			}
			var es, js []string
			for _, m := range model {
				es = append(es, fmt.Sprintf("%s:%d,", m.k, m.v))
				js = append(js, fmt.Sprintf("%q:%d", m.k, m.v))
			}
			fmt.Fprintf(&b, "echo \"mueach%s=\"; foreach ($mu%s as $k => $v) { echo $k, \":\", $v, \",\"; } echo \"\\n\";\n", i, i)
			fmt.Fprintf(&e, "mueach%s=%s\n", i, strings.Join(es, ""))
			if len(model) > 0 {
				fmt.Fprintf(&b, "echo \"mujson%s=\", json_encode($mu%s), \"\\n\";\n", i, i)
				fmt.Fprintf(&e, "mujson%s={%s}\n", i, strings.Join(js, ","))
			}
		case "arrfn":
			idx := 0
			fmt.Sscan(f[2], &idx)
			fn := arrFns[idx]
			if have(fn.need...) {
				fmt.Fprintf(&b, "echo \"fn_%s%s=\", %s, \"\\n\";\n", fn.name, i, fn.code)
			}
		case "throw":
			b.WriteString("throw new Exception(\"uncaught at the end\");\n")
		}
	}
	return b.String(), e.String()
}

// ---- A;B pairs: A leaves state behind, B probes it ------------------------------------

var leavers = []struct {
	name string
	need []string
	code string
}{
	{"open_output_buffer", []string{"ob_start"}, `ob_start(); echo "left in buffer";`},
	{"nested_output_buffers", []string{"ob_start"}, `ob_start(); ob_start(); echo "x";`},
	{"ob_callback", []string{"ob_start"}, `ob_start(function($b) { return strtoupper($b); }); echo "cb";`},
	{"ini_precision", []string{"ini_set"}, `ini_set("precision", "3"); ini_set("serialize_precision", "3");`},
	{"ini_display_errors", []string{"ini_set"}, `ini_set("display_errors", "0"); ini_set("memory_limit", "1M");`},
	{"error_reporting", []string{"error_reporting"}, `error_reporting(0);`},
	{"exception_handler", []string{"set_exception_handler"}, `set_exception_handler(function($e) { echo "HANDLED-BY-A:", $e->getMessage(), "\n"; });`},
	{"error_handler", []string{"set_error_handler"}, `set_error_handler(function($no, $str) { echo "ERR-BY-A:", $str, "\n"; return true; });`},
	{"autoloader", []string{"spl_autoload_register"}, `spl_autoload_register(function($c) { echo "AUTOLOAD-BY-A:", $c, "\n"; });`},
	{"shutdown_function", []string{"register_shutdown_function"}, `register_shutdown_function(function() { echo "SHUTDOWN-BY-A\n"; });`},
	{"timezone", []string{"date_default_timezone_set"}, `date_default_timezone_set("Asia/Tokyo");`},
	{"mb_encoding", []string{"mb_internal_encoding"}, `mb_internal_encoding("ISO-8859-1");`},
	{"locale", []string{"setlocale"}, `setlocale(LC_ALL, "de_DE.UTF-8");`},
	{"superglobal_write", nil, `$_GET["leak"] = "from-A"; $_POST["leak"] = "from-A"; $_SERVER["LEAK"] = "from-A"; $_COOKIE["leak"] = "from-A"; $_REQUEST["leak"] = "from-A"; $_SESSION["leak"] = "from-A"; $_ENV["LEAK"] = "from-A";`},
	{"globals_write", nil, `$leakedGlobal = "from-A"; $GLOBALS["leak2"] = "from-A";`},
	{"define_constant", []string{"define"}, `define("LEAKED_CONST", "from-A");`},
	{"class_and_function", nil, `class LeakedClass { public static $v = "from-A"; } function leaked_fn() { return "from-A"; }`},
	{"static_local", nil, `function counter_a() { static $n = 0; $n++; return $n; } counter_a(); counter_a();`},
	{"static_prop_on_builtin", nil, `class_exists("Exception");`},
	{"putenv", []string{"putenv"}, `putenv("VERIF_LEAK=from-A");`},
	{"srand", []string{"mt_srand"}, `mt_srand(42); srand(42);`},
	{"time_limit", []string{"set_time_limit"}, `set_time_limit(1);`},
	{"assert_options", []string{"ini_set"}, `ini_set("assert.active", "0");`},
	{"uncaught_exception", nil, `throw new Exception("A dies");`},
	{"exit_in_buffer", []string{"ob_start"}, `ob_start(); echo "pending"; throw new Exception("A dies with open buffer");`},
	{"include_path", []string{"set_include_path"}, `set_include_path("/leaked/by/A");`},
	{"header_calls", []string{"header"}, `header("X-Leak: from-A"); http_response_code(418);`},
	{"session_start", []string{"session_start"}, `session_start(); $_SESSION["u"] = "from-A";`},
	{"json_depth_error", []string{"json_decode"}, `json_decode("{bad json");`},
	{"preg_error", []string{"preg_match"}, `preg_match("/(a+)+$/", str_repeat("a", 30) . "b");`},
	{"libxml", []string{"libxml_use_internal_errors"}, `libxml_use_internal_errors(true);`},
	{"stream_context_default", []string{"stream_context_set_default"}, `stream_context_set_default(["http" => ["timeout" => 1]]);`},
	{"umask_chdir", []string{"chdir"}, `chdir("/");`},
	// builtins that keep something between two calls (a continuation, a "last error", a list of what was declared)
	{"strtok_rest", []string{"strtok"}, `$tk = strtok("user=alice,token=s3cr3t,role=admin", ",");`},
	{"strtok_rest_two", []string{"strtok"}, `$tk = strtok("a b c d", " "); $tk = strtok(" ");`},
	{"error_last", []string{"trigger_error"}, `@trigger_error("left by A", E_USER_WARNING);`},
	{"declared_things", nil, `class DeclA1 { } class DeclA2 { } interface DeclAI { } function decl_a_fn() { return 1; } define("DECL_A", 1);`},
	{"included_file", nil, `$inc = include "@INC@/lib_ret.php";`},
	{"many_objects", nil, `$keep = []; for ($i = 0; $i < 50; $i++) { $keep[] = new stdClass(); }`},
	{"array_cursor", []string{"next"}, `$cur = [1, 2, 3]; next($cur); next($cur);`},
}

var probes = []struct {
	name string
	need []string
	code string
}{
	{"ob_level", []string{"ob_get_level"}, `ob_get_level()`},
	{"plain_echo", nil, `"visible"`},
	{"float_print", nil, `1/3`},
	{"float_json", []string{"json_encode"}, `json_encode(1/3)`},
	{"ini_precision", []string{"ini_get"}, `ini_get("precision")`},
	{"ini_display_errors", []string{"ini_get"}, `ini_get("display_errors") . "|" . ini_get("memory_limit")`},
	{"error_reporting", []string{"error_reporting"}, `error_reporting()`},
	{"timezone", []string{"date_default_timezone_get"}, `date_default_timezone_get()`},
	{"mb_encoding", []string{"mb_internal_encoding"}, `mb_internal_encoding()`},
	{"superglobal_get", nil, `(isset($_GET["leak"]) ? $_GET["leak"] : "unset")`},
	{"superglobal_post", nil, `(isset($_POST["leak"]) ? $_POST["leak"] : "unset")`},
	{"superglobal_server", nil, `(isset($_SERVER["LEAK"]) ? $_SERVER["LEAK"] : "unset")`},
	{"superglobal_cookie", nil, `(isset($_COOKIE["leak"]) ? $_COOKIE["leak"] : "unset")`},
	{"superglobal_request", nil, `(isset($_REQUEST["leak"]) ? $_REQUEST["leak"] : "unset")`},
	{"superglobal_session", nil, `(isset($_SESSION["leak"]) ? $_SESSION["leak"] : "unset")`},
	{"superglobal_env", nil, `(isset($_ENV["LEAK"]) ? $_ENV["LEAK"] : "unset")`},
	{"globals_var", nil, `(isset($leakedGlobal) ? $leakedGlobal : "unset") . "|" . (isset($GLOBALS["leak2"]) ? $GLOBALS["leak2"] : "unset")`},
	{"constant", []string{"defined"}, `(defined("LEAKED_CONST") ? "defined" : "undefined")`},
	{"class_exists", []string{"class_exists", "function_exists"}, `(class_exists("LeakedClass") ? "class" : "noclass") . "|" . (function_exists("leaked_fn") ? "fn" : "nofn")`},
	{"autoload_probe", []string{"class_exists"}, `(class_exists("NoSuchClassAnywhere") ? "y" : "n")`},
	{"static_local", nil, `(function() { static $n = 0; $n++; return $n; })()`},
	{"static_local_named", nil, `counter_b()`},
	{"getenv", []string{"getenv"}, `var_export(getenv("VERIF_LEAK"), true)`},
	{"include_path", []string{"get_include_path"}, `get_include_path()`},
	{"json_last_error", []string{"json_last_error"}, `json_last_error()`},
	{"preg_last_error", []string{"preg_last_error"}, `preg_last_error()`},
	{"http_response_code", []string{"http_response_code"}, `var_export(http_response_code(), true)`},
	{"headers_list", []string{"headers_list"}, `json_encode(headers_list())`},
	{"getcwd", []string{"getcwd"}, `(getcwd() == "/" ? "root" : "elsewhere")`},
	{"strtok_continue", []string{"strtok"}, `var_export(strtok(","), true) . "|" . var_export(strtok(" "), true)`},
	{"error_get_last", []string{"error_get_last"}, `json_encode(error_get_last())`},
	{"declared_classes", []string{"get_declared_classes"}, `count(array_filter(get_declared_classes(), function($c) { return substr($c, 0, 4) == "Decl"; }))`},
	{"declared_interfaces", []string{"get_declared_interfaces"}, `count(array_filter(get_declared_interfaces(), function($c) { return substr($c, 0, 4) == "Decl"; }))`},
	{"defined_functions", []string{"get_defined_functions"}, `json_encode(get_defined_functions()["user"])`},
	{"user_constants", []string{"get_defined_constants"}, `json_encode(get_defined_constants(true)["user"] ?? [])`},
	{"included_files", []string{"get_included_files"}, `count(get_included_files())`},
	// (no spl_object_id probe: origami derives the id from the object's address, PHP promises uniqueness only — an
	// object id is an input of the process like its pid, and the corpus filter excludes programs that print one)
	{"array_cursor", []string{"current"}, `current([7, 8, 9])`},
	{"uncaught_in_b", nil, `"before-throw"`},
}

// sameNames builds a program that declares a small world of classes,
// interfaces, functions and constants under FIXED names; variant tags and
// structural choices (which class overrides or lacks which method) differ
// between program A and program B. On a fresh VM, B must see only its own world.
func sameNames(r *verifsim.Rng, tag string, probe bool) string {
	var b strings.Builder
	b.WriteString("<?php\n")
	baseHasArea := r.Intn(2) == 0
	childOverrides := r.Intn(2) == 0
	childHasExtra := r.Intn(2) == 0
	fmt.Fprintf(&b, "interface Named { const KIND = \"%s-kind\"; }\n", tag)
	fmt.Fprintf(&b, "class Shape implements Named {\n  public $label = \"%s-label\";\n  public static $count = \"%s-static\";\n  const SIDES = \"%s-sides\";\n  public function name() { return \"%s-shape\"; }\n", tag, tag, tag, tag)
	if baseHasArea {
		fmt.Fprintf(&b, "  public function area() { return \"%s-area\"; }\n", tag)
	}
	fmt.Fprintf(&b, "  public static function make() { return \"%s-make\"; }\n}\n", tag)
	b.WriteString("class Square extends Shape {\n")
	if childOverrides {
		fmt.Fprintf(&b, "  public function name() { return \"%s-square\"; }\n", tag)
	}
	if childHasExtra {
		fmt.Fprintf(&b, "  public function perimeter() { return \"%s-perimeter\"; }\n", tag)
	}
	b.WriteString("}\nclass Tiny extends Square { }\n")
	fmt.Fprintf(&b, "function helper_fn() { return \"%s-fn\"; }\n", tag)
	fmt.Fprintf(&b, "function counting() { static $n = 0; $n++; return \"%s-\" . $n; }\n", tag)
	if have("define") {
		fmt.Fprintf(&b, "define(\"WORLD_CONST\", \"%s-const\");\n", tag)
	}
	// same names, different HIERARCHIES: which interface a class implements and which
	// built-in exception it extends differ between the programs; asked through type
	// hints (parameter, property, return), catch clauses and json_encode
	itemPriced := r.Intn(2) == 0
	errRuntime := r.Intn(2) == 0
	serIface := r.Intn(2) == 0
	b.WriteString("interface Priced { }\n")
	impl := func(on bool, what string) string {
		if on {
			return " " + what
		}
		return ""
	}
	fmt.Fprintf(&b, "class Item%s { public $p = 1; }\n", impl(itemPriced, "implements Priced"))
	fmt.Fprintf(&b, "class WorldErr extends %s { }\n", map[bool]string{true: "RuntimeException", false: "LogicException"}[errRuntime])
	fmt.Fprintf(&b, "class Ser%s { public $v = 1; public function jsonSerialize() { return [\"custom\" => \"%s\"]; } }\n", impl(serIface, "implements JsonSerializable"), tag)
	b.WriteString("class SlotHolder { public Priced $slot; }\n")
	b.WriteString("function price_of(Priced $p) { return \"accepted\"; }\nfunction ret_priced($x): Priced { return $x; }\n")
	b.WriteString("function hint_param() { try { return price_of(new Item()); } catch (\\Throwable $e) { return \"rejected\"; } }\n")
	b.WriteString("function hint_prop() { $h = new SlotHolder(); try { $h->slot = new Item(); return \"accepted\"; } catch (\\Throwable $e) { return \"rejected\"; } }\n")
	b.WriteString("function hint_ret() { try { ret_priced(new Item()); return \"accepted\"; } catch (\\Throwable $e) { return \"rejected\"; } }\n")
	b.WriteString("function which_catch() { try { throw new WorldErr(\"x\"); } catch (RuntimeException $e) { return \"runtime\"; } catch (LogicException $e) { return \"logic\"; } }\n")
	// exercise everything (A warms whatever caches exist; B's lines are the probes)
	calls := []struct{ label, code string }{
		{"hint_param", `hint_param()`},
		{"hint_property", `hint_prop()`},
		{"hint_return", `hint_ret()`},
		{"catch_by_parent", `which_catch()`},
		{"json_serializable", `json_encode(new Ser())`},
		{"instanceof_iface", `((new Item()) instanceof Priced ? "priced" : "not-priced")`},
		{"inherited_method", `(new Square())->name()`},
		{"deep_inherited_method", `(new Tiny())->name()`},
		{"maybe_missing_method", `(method_exists(new Tiny(), "area") ? (new Tiny())->area() : "no-area")`},
		{"maybe_missing_method2", `(method_exists(new Square(), "perimeter") ? (new Square())->perimeter() : "no-perimeter")`},
		{"static_method", `Square::make()`},
		{"static_property", `Shape::$count`},
		{"class_constant", `Square::SIDES`},
		{"default_property", `(new Tiny())->label`},
		{"function", `helper_fn()`},
		{"static_local", `counting() . counting()`},
		{"instanceof", `((new Tiny()) instanceof Named ? "named" : "not-named")`},
		{"json_of_object", `json_encode(new Square())`},
	}
	if have("define", "constant") {
		calls = append(calls, struct{ label, code string }{"define_constant", `constant("WORLD_CONST")`})
	}
	for _, c := range calls {
		if strings.Contains(c.code, "method_exists") && !have("method_exists") {
			continue
		}
		if probe {
			fmt.Fprintf(&b, "echo \"%s=\", %s, \"\\n\";\n", c.label, c.code)
		} else {
			fmt.Fprintf(&b, "$x = %s;\n", c.code)
		}
	}
	return b.String()
}

// statement shapes that update a value in place (counters taken from a default
// parameter, from destructuring, from a foreach key; compound assignments;
// decoding into typed properties): if the interpreter shares or interns values,
// a later VM sees the damage in the most basic expressions
var shapes = []string{
	`function shape_a($i = 0) { for (; $i < 3; $i++) { } return $i; } shape_a();`,
	`[$lo, $hi] = [0, 3]; for (; $lo < $hi; $lo++) { }`,
	`foreach ([0, 1] as $k => $v) { for (; $k < 3; $k++) { } }`,
	`$i = 0; ++$i; for (; $i < 4; $i++) { }`,
	`$j = 1; $j--; $j--; for (; $j < 2; $j++) { }`,
	`class ShapePerson { public $age = 0; public $name = ""; public $tags = []; } json_decode('{"age":7,"name":"n","tags":[1]}', 'ShapePerson');`,
	`$n = 5; $n += 3; $n *= 2; $n -= 1; $n %= 7;`,
	`$s = "a"; $s .= "b"; $s .= 1;`,
	`$arr = [0, 1, 2]; $arr[0]++; $arr[1] += 5; $arr[] = 0;`,
	`$o = new stdClass(); $o->v = 0; $o->v++; $o->v += 2;`,
	`$f = 0.5; $f += 0.25; $f *= 2;`,
	`$t = true; $t = !$t; $z = null; $z ??= 0; $z++;`,
	`function shape_b(&$r) { $r++; } $q = 0; shape_b($q); shape_b($q);`,
	`$w = 0; while ($w < 3) { $w++; } do { $w--; } while ($w > 0);`,
	`function shape_c() { static $c = 0; $c++; return $c; } shape_c(); shape_c();`,
	`$m = [[0, 0], [1, 1]]; foreach ($m as $row) { foreach ($row as $cell) { $cell++; } }`,
	`$x = 0; $y = $x; $y++; $x += 10;`,
	`[$p1, $p2] = [1, 2]; $p1++; $p2--;`,
	`for ($a1 = 0, $b1 = 10; $a1 < $b1; $a1++, $b1--) { }`,
	`$str = "abc"; $len = strlen($str); $len++; $sub = substr($str, 0, 1); $sub .= "z";`,
	`$cnt = count([1, 2, 3]); $cnt++; $e = count([]); $e++;`,
}

// calls that FAIL half-way (error paths often skip the clean-up the success
// path does): each is wrapped so that program A keeps going
var errorPaths = []string{
	`$big = 1e308 * 10; $r = json_encode(["id" => 7, "name" => "widget", "stats" => $big]);`,
	`$big = 1e308 * 10; $r = json_encode(["a" => [1, 2, [3, $big]], "b" => "x"]);`,
	`$o = new stdClass(); $o->a = 1; $o->inf = 1e308 * 10; $r = json_encode($o);`,
	`$r = json_decode("{\"a\": [1, 2, {\"b\": ");`,
	`$r = json_decode("[1, 2", true);`,
	`try { $r = preg_match("/(unclosed", "subject"); } catch (\Throwable $e) { }`,
	`try { $r = preg_replace("/[a-/", "", "subject"); } catch (\Throwable $e) { }`,
	`try { $r = unserialize("a:2:{i:0;s:5:\"ab"); } catch (\Throwable $e) { }`,
	`try { $r = intdiv(1, 0); } catch (\Throwable $e) { }`,
	`try { $r = 1 % 0; } catch (\Throwable $e) { }`,
	`try { $r = str_repeat("x", -1); } catch (\Throwable $e) { }`,
	`try { $r = array_combine([1, 2], [1]); } catch (\Throwable $e) { }`,
	`try { $r = sprintf("%d %d %s", 1); } catch (\Throwable $e) { }`,
	`try { $r = implode(",", "not-an-array"); } catch (\Throwable $e) { }`,
	`try { $r = array_map("no_such_callback", [1, 2]); } catch (\Throwable $e) { }`,
	`try { $r = (new NoSuchClassForErrorPath())->m(); } catch (\Throwable $e) { }`,
	`try { $r = no_such_function_for_error_path(1); } catch (\Throwable $e) { }`,
	`function err_thrower() { throw new Exception("inside"); } try { $r = array_map(function($x) { return err_thrower(); }, [1, 2, 3]); } catch (\Throwable $e) { }`,
	`try { usort($GLOBALS_missing, function($a, $b) { return 0; }); } catch (\Throwable $e) { }`,
	`try { $s = "abc"; $r = $s->noMethod(); } catch (\Throwable $e) { }`,
	`try { ob_start(); echo "partial"; throw new Exception("while buffering"); } catch (\Throwable $e) { ob_end_clean(); }`,
	`try { $r = var_export(fopen_missing_fn(), true); } catch (\Throwable $e) { }`,
}

const moreProbe = `
echo "json2=", json_encode(["x" => 1, "y" => [1, 2, 3]]), "|", json_encode("s"), "|", json_encode([1.5, true, null]), "\n";
echo "jsondec=", json_encode(json_decode('{"a":[1,{"b":2}]}', true)), "\n";
echo "preg=", preg_match("/a(b+)c/", "xabbbc", $pm), "|", $pm[1], "|", preg_replace("/b+/", "B", "abbbc"), "\n";
echo "ser=", serialize(["a" => 1, "b" => [true, null]]), "|", json_encode(unserialize(serialize(["k" => "v"]))), "\n";
echo "fmt=", sprintf("%05d|%s|%.2f|%x", 42, "s", 3.14159, 255), "|", number_format(1234567.891, 2), "\n";
echo "str2=", str_repeat("ab", 3), "|", implode(",", [1, 2, 3]), "|", strtoupper("abc"), "|", str_pad("7", 3, "0", STR_PAD_LEFT), "\n";
echo "arr2=", json_encode(array_map(function($x) { return $x * 2; }, [1, 2, 3])), "|", json_encode(array_combine(["a", "b"], [1, 2])), "\n";
echo "div=", 7 % 3, "|", 2 ** 10, "|", 7 / 2, "\n";
`

const basicsProbe = `
echo "lit=", 0, "|", 1, "|", 2, "|", 3, "|", 7, "|", 10, "|", -1, "\n";
echo "count=", count([]), "|", count([1]), "|", count([1, 2, 3]), "\n";
echo "strlen=", strlen(""), "|", strlen("a"), "|", strlen("abc"), "\n";
echo "arith=", 1 + 1, "|", 2 * 3, "|", 7 - 7, "|", 9 % 4, "\n";
echo "loop="; for ($i = 0; $i < 4; $i++) { echo $i, ","; } echo "\n";
echo "keys="; foreach (["a", "b", "c"] as $k => $v) { echo $k, $v, ","; } echo "\n";
echo "str=", "abc", "|", "a" . "b", "|", "" . 0, "\n";
echo "bool=", true ? "t" : "f", "|", (0 == 0) ? "t" : "f", "|", (1 < 0) ? "t" : "f", "\n";
echo "float=", 0.5, "|", 0.5 + 0.25, "|", 1.5 * 2, "\n";
echo "json=", json_encode([0, 1, 2, "k" => 0]), "\n";
echo "null=", null === null ? "null" : "notnull", "|", isset($undefinedVar) ? "set" : "unset", "\n";
$fresh = new stdClass(); $fresh->v = 0; echo "obj=", $fresh->v, "|", json_encode($fresh), "\n";
function basics_fn($p = 0, $q = 1) { return $p . ":" . $q; } echo "defaults=", basics_fn(), "|", basics_fn(5), "\n";
$idxArr = [10, 20, 30]; $idxStr = "xyz"; echo "idx=", $idxArr[0], "|", $idxArr[2], "|", $idxStr[1], "\n";
`

func genPair(r *verifsim.Rng) (a, b string, parts []string) {
	switch r.Intn(10) {
	case 0, 1:
		return sameNames(r, "A", false), sameNames(r, "B", true), []string{"same_named_definitions"}
	case 2:
		// A: a few in-place-update shapes; B: the most basic expressions
		var ab strings.Builder
		ab.WriteString("<?php\n")
		for _, i := range r.Perm(len(shapes))[:2+r.Intn(4)] {
			ab.WriteString(shapes[i] + "\n")
		}
		return ab.String(), "<?php\n" + basicsProbe, []string{"in_place_update_shapes"}
	case 4:
		// A: a few calls that fail half-way; B: the basics plus the same builtin families used successfully
		var ab strings.Builder
		ab.WriteString("<?php\n")
		for _, i := range r.Perm(len(errorPaths))[:2+r.Intn(4)] {
			ab.WriteString(errorPaths[i] + "\n")
		}
		return ab.String(), "<?php\n" + basicsProbe + moreProbe, []string{"error_paths"}
	case 5:
		// A: first uses exactly what B will use, then puts thousands of DISTINCT
		// patterns / formats / keys through the same builtins (caches keyed by
		// string that recycle or overflow only after thousands of entries)
		n := verifsim.Pick(r, []int{300, 1100, 4200, 4200, 9000})
		a := "<?php\nob_start();\n" + basicsProbe + moreProbe + "ob_end_clean();\n" + fmt.Sprintf(`
for ($i = 0; $i < %d; $i++) {
  $p = "/^k" . $i . "(x+)$/";
  $r1 = preg_match($p, "k" . $i . "xx", $mm);
  $r2 = preg_replace("/v" . $i . "/", "V", "v" . $i);
  $r3 = sprintf("%%0" . (1 + $i %% 9) . "d-k" . $i, $i);
  $r4 = str_replace("k" . $i, "K", "k" . $i . "k");
  $r5 = json_encode(["key" . $i => $i]);
  $r6 = md5("s" . $i);
  $r7 = strtoupper("w" . $i) . ucfirst("w" . $i);
  $r8 = explode("-", "a-" . $i . "-b");
  $r9 = number_format($i + 0.5, 1 + $i %% 3);
}
`, n)
		return a, "<?php\n" + basicsProbe + moreProbe, []string{fmt.Sprintf("bulk_distinct_strings_%d", n)}
	case 7:
		// A and B use the same regex BODIES with different modifiers (and the same ones):
		// whatever is remembered per pattern must include everything that changes its meaning
		bodies := []string{`(?<![a-z])cat`, `(?<=\d)px`, `cat(?=\s)`, `(a)\1`, `(?>do+)g`, `^cat`, `c.t`, `dog$`, `(?<w>c[a-z]t)`, `C A T`}
		mods := []string{"", "i", "m", "s", "im", "x", "ix"}
		subj := `"Cat concat CAT\ncat dog\nDOG 10PX 20px aa bb abab"`
		var ab, bb strings.Builder
		ab.WriteString("<?php\n$subj = " + subj + ";\n")
		bb.WriteString("<?php\n$subj = " + subj + ";\n")
		for _, k := range r.Perm(len(bodies))[:2+r.Intn(5)] {
			ma, mb := mods[r.Intn(len(mods))], mods[r.Intn(len(mods))]
			fmt.Fprintf(&ab, "$n = preg_match_all('/%s/%s', $subj, $mm); $t = preg_replace('/%s/%s', \"#\", $subj, 2); $p = preg_split('/%s/%s', $subj);\n", bodies[k], ma, bodies[k], ma, bodies[k], ma)
			fmt.Fprintf(&bb, "echo \"regex_variant%d=\", preg_match_all('/%s/%s', $subj, $mm), \"|\", preg_replace('/%s/%s', \"#\", $subj, 2), \"|\", count(preg_split('/%s/%s', $subj)), \"\\n\";\n", k, bodies[k], mb, bodies[k], mb, bodies[k], mb)
		}
		return ab.String(), bb.String(), []string{"regex_same_body_other_modifiers"}
	case 6:
		if r.Intn(2) == 0 {
			return replacedFile(r)
		}
		// A and B include the same files (by absolute path): what a file defines and returns
		// must reach every VM that includes it, whatever an earlier VM of the process did with it
		uses := []struct{ label, a, b string }{
			{"require_defs", `$c = require "@INC@/lib_defs.php";`, `$cfg = require "@INC@/lib_defs.php"; echo "require_defs=", json_encode($cfg), "|", (new IncK())->tag(), "|", inc_fn(), "\n";`},
			{"include_ret", `$r = include "@INC@/lib_ret.php";`, `$r = include "@INC@/lib_ret.php"; echo "include_ret=", json_encode($r), "\n";`},
			{"require_once", `require_once "@INC@/lib_once.php";`, `$o = require_once "@INC@/lib_once.php"; echo "require_once=", json_encode($o), "|", once_fn(), "\n";`},
			{"include_once_iface", `include_once "@INC@/lib_iface.php"; $x = new IncImpl();`, `include_once "@INC@/lib_iface.php"; echo "include_once_iface=", ((new IncImpl()) instanceof IncI ? "yes" : "no"), "|", json_encode(new IncImpl()), "\n";`},
		}
		var ab, bb strings.Builder
		ab.WriteString("<?php\n")
		bb.WriteString("<?php\n")
		var names []string
		for _, i := range r.Perm(len(uses))[:1+r.Intn(len(uses))] {
			if r.Intn(3) != 0 {
				ab.WriteString(uses[i].a + "\n")
			}
			bb.WriteString(uses[i].b + "\n")
			names = append(names, uses[i].label)
		}
		return ab.String(), bb.String(), []string{"shared_include:" + strings.Join(names, "+")}
	case 3:
		// A: a whole file of the script corpus (run from its path); B: the basics
		if c := loadCorpusAll(); len(c) > 0 {
			f := c[r.Intn(len(c))]
			return "@file:" + f, "<?php\n" + basicsProbe, []string{"corpus_file:" + f}
		}
	}
	var as, bs []int
	for i := range leavers {
		if have(leavers[i].need...) {
			as = append(as, i)
		}
	}
	for i := range probes {
		if have(probes[i].need...) {
			bs = append(bs, i)
		}
	}
	var ab strings.Builder
	ab.WriteString("<?php\n")
	na := 1 + r.Intn(2)
	var names []string
	for i := 0; i < na; i++ {
		l := leavers[as[r.Intn(len(as))]]
		ab.WriteString(l.code + "\n")
		names = append(names, l.name)
	}
	var bb strings.Builder
	bb.WriteString("<?php\nfunction counter_b() { static $n = 0; $n++; return $n; }\n")
	nb := 1 + r.Intn(4)
	thrower := false
	for i := 0; i < nb; i++ {
		p := probes[bs[r.Intn(len(bs))]]
		fmt.Fprintf(&bb, "echo \"%s=\", %s, \"\\n\";\n", p.name, p.code)
		if p.name == "uncaught_in_b" {
			thrower = true
		}
	}
	if thrower {
		bb.WriteString("throw new Exception(\"B throws\");\n")
	}
	return ab.String(), bb.String(), []string{strings.Join(names, "+")}
}

// replacedFile: A and B see ONE path with two contents (a file replaced between two runs of one process): B must run
// what is on the disk when B starts. The disk chooses lengths and modification times: same or different.
func replacedFile(r *verifsim.Rng) (a, b string, parts []string) {
	put := func(name string, sec int64, text string) string {
		return fmt.Sprintf("#@put %s %d %s\n", name, sec, hex.EncodeToString([]byte(text)))
	}
	ta := int64(1700000000)
	tb := ta
	timeKind := "same_mtime"
	if r.Intn(3) == 0 {
		tb = ta + verifsim.Pick(r, []int64{1, 2, 3600, -5})
		timeKind = "other_mtime"
	}
	pad := ""
	lenKind := "same_length"
	if r.Intn(3) == 0 {
		pad = strings.Repeat(" ", 1+r.Intn(9))
		lenKind = "other_length"
	}
	va, vb := verifsim.Pick(r, []string{"alpha", "gamma"}), verifsim.Pick(r, []string{"omega", "delta"})
	na, nb := 10+r.Intn(40), 50+r.Intn(40)
	kind := verifsim.Pick(r, []string{"include", "require", "require_once", "include_once", "class_file", "main", "nested"})
	switch kind {
	case "main":
		a = fmt.Sprintf("#@main %d\n<?php\necho \"main_version=\", \"%s\", \"|\", %d, \"\\n\";\n", ta, va, na)
		b = fmt.Sprintf("#@main %d\n<?php\necho \"main_version=\", \"%s\", \"|\", %d, \"\\n\";%s\n", tb, vb, nb, pad)
	case "class_file":
		fa := fmt.Sprintf("<?php\nclass SwapK { public $n = %d; public function tag() { return \"%s\"; } }\n", na, va)
		fb := fmt.Sprintf("<?php\nclass SwapK { public $n = %d; public function tag() { return \"%s\"; } }%s\n", nb, vb, pad)
		a = put("SwapK.php", ta, fa) + "<?php\nrequire_once \"@SWAP@/SwapK.php\"; $k = new SwapK(); $t = $k->tag();\n"
		b = put("SwapK.php", tb, fb) + "<?php\nrequire_once \"@SWAP@/SwapK.php\"; $k = new SwapK(); echo \"swap_class=\", $k->tag(), \"|\", $k->n, \"\\n\";\n"
	case "nested":
		// the replaced file is included by an unchanged file
		outer := "<?php\n$inner = include \"@SWAP@/inner.php\";\nreturn [\"outer\" => 1, \"inner\" => $inner];\n"
		fa := fmt.Sprintf("<?php\nreturn [\"limit\" => %d, \"name\" => \"%s\"];\n", na, va)
		fb := fmt.Sprintf("<?php\nreturn [\"limit\" => %d, \"name\" => \"%s\"];%s\n", nb, vb, pad)
		a = put("outer.php", ta, outer) + put("inner.php", ta, fa) + "<?php\n$r = include \"@SWAP@/outer.php\";\n"
		b = put("outer.php", ta, outer) + put("inner.php", tb, fb) + "<?php\n$r = include \"@SWAP@/outer.php\"; echo \"swap_nested=\", json_encode($r), \"\\n\";\n"
	default:
		fa := fmt.Sprintf("<?php\nreturn [\"limit\" => %d, \"name\" => \"%s\"];\n", na, va)
		fb := fmt.Sprintf("<?php\nreturn [\"limit\" => %d, \"name\" => \"%s\"];%s\n", nb, vb, pad)
		a = put("lib.php", ta, fa) + fmt.Sprintf("<?php\n$r = %s \"@SWAP@/lib.php\";\n", kind)
		b = put("lib.php", tb, fb) + fmt.Sprintf("<?php\n$r = %s \"@SWAP@/lib.php\"; echo \"swap_%s=\", json_encode($r), \"\\n\";\n", kind, kind)
	}
	return a, b, []string{"replaced_file:" + kind + ":" + lenKind + ":" + timeKind}
}
