package c20

import (
	"bytes"
	"context"
	"encoding/hex"
	"encoding/json"
	"fmt"
	"os"
	"os/exec"
	"path/filepath"
	"regexp"
	"sort"
	"strconv"
	"strings"
	"sync"
	"testing"
	"time"

	"github.com/php-any/origami/data"
	"github.com/php-any/origami/verifharness/hx"
	"github.com/php-any/origami/verifsim"
)

// Order is one choice of the adversary: how Go map iteration is ordered.
type Order struct {
	Mode int    `json:"mode"` // 0 sorted, 1 reverse, 2 seeded permutation per (site, call)
	Seed uint64 `json:"seed,omitempty"`
}

type W struct {
	Kind   string   `json:"kind"`             // gen | pair | corpus
	Src    string   `json:"src,omitempty"`    // gen: the program; pair: program B
	Expect string   `json:"expect,omitempty"` // gen: output lines the generator knows from construction ("label=…")
	A      string   `json:"a,omitempty"`      // pair: program A (leaves state behind)
	File   string   `json:"file,omitempty"`   // corpus: path relative to tests/
	Orders []Order  `json:"orders"`
	Sites  []int32  `json:"only_sites,omitempty"` // minimised: only these sites get the non-sorted order
	Parts  []string `json:"parts,omitempty"`
}

func orders(r *verifsim.Rng, k int) []Order {
	out := []Order{{Mode: 0}, {Mode: 1}}
	for len(out) < k {
		out = append(out, Order{Mode: 2, Seed: r.Uint64() >> 1})
	}
	return out
}

var corpus []string

func gen(r *verifsim.Rng, tier string) (any, hx.Sched) {
	w := &W{}
	x := r.Intn(10)
	switch {
	case x < 5 || (len(loadCorpus()) == 0 && x >= 8):
		w.Kind = "gen"
		w.Src, w.Expect, w.Parts = genProgram(r)
		w.Orders = orders(r, 6)
		if r.Intn(8) == 0 {
			// the same kind of program, but run by the interpreter binary in fresh OS
			// processes: stdout, stderr (diagnostics) and the exit status are compared
			w.Kind = "genproc"
			w.Orders = orders(r, 3)
		}
	case x < 8:
		w.Kind = "pair"
		w.A, w.Src, w.Parts = genPair(r)
		w.Orders = []Order{{Mode: 0}}
	default:
		w.Kind = "corpus"
		c := loadCorpus()
		w.File = c[r.Intn(len(c))]
		w.Orders = orders(r, 3)
	}
	s := hx.Sched{Seed: r.Uint64(), MeanGap: 1 << 30, MaxSteps: 1000}
	return w, s
}

func decode(raw json.RawMessage) (any, error) {
	w := &W{}
	return w, json.Unmarshal(raw, w)
}

// shrink: fewer orders; (program text is shrunk by dropping generated parts)
func shrink(x any) []any {
	w := x.(*W)
	var out []any
	if len(w.Orders) > 2 {
		for i := 1; i < len(w.Orders); i++ {
			c := *w
			c.Orders = append(append([]Order{}, w.Orders[:i]...), w.Orders[i+1:]...)
			out = append(out, &c)
		}
	}
	if w.Kind == "gen" && len(w.Parts) > 1 {
		for i := range w.Parts {
			c := *w
			c.Parts = append(append([]string{}, w.Parts[:i]...), w.Parts[i+1:]...)
			c.Src, c.Expect = assemble(c.Parts)
			out = append(out, &c)
		}
	}
	return out
}

// ---- running programs -----------------------------------------------------------

type result struct {
	Out    string
	Ctl    string
	Throws string
}

func (r result) String() string {
	return fmt.Sprintf("out=%q ctl=%q throws=%q", r.Out, r.Ctl, r.Throws)
}

// runFresh executes programs one after another, each on its own freshly created VM, in
// this process, under the given map order; returns the result of the last one.
func runFresh(t *testing.T, mc *verifsim.MapConfig, progs ...string) (last result, reached []int32) {
	cfg := verifsim.Config{MeanGap: 1 << 30, MaxSteps: 100000}
	hx.RunBubble(t, cfg, func(sim *verifsim.Sim) {
		sim.Spawn("main", func() {
			// the simulator installs its own (sorted) order; replace it with the adversary's
			verifsim.SetMapConfig(mc)
			for _, src := range progs {
				env := hx.NewEnv()
				restore := env.Capture()
				var ctl data.Control
				if strings.HasPrefix(src, "@file:") {
					// a corpus file, loaded from its path like `origami file.php` does
					_, ctl = env.VM.LoadAndRun(filepath.Join(root(), "tests", strings.TrimPrefix(src, "@file:")))
				} else {
					if strings.Contains(src, "@INC@") {
						src = strings.ReplaceAll(src, "@INC@", incDir())
					}
					src, mainPath := applyDirectives(src)
					if mainPath != "" {
						_, ctl = env.VM.LoadAndRun(mainPath)
					} else {
						_, _, ctl = env.Run(src, "/verif/c20/prog.php")
					}
				}
				if data.FlushAllBuffersFn != nil {
					data.FlushAllBuffersFn()
				}
				restore()
				last = result{Out: env.Out.String(), Ctl: first(hx.CtlStr(ctl)), Throws: strings.Join(env.Throws, "|")}
			}
			reached = mc.ReachedSites()
		})
	})
	data.ResetOutputWriter()
	return last, reached
}

func first(s string) string {
	if len(s) > 300 {
		s = s[:300]
	}
	return s
}

func mapCfg(o Order, only []int32) *verifsim.MapConfig {
	if only == nil {
		return &verifsim.MapConfig{Mode: o.Mode, Seed: o.Seed}
	}
	mc := &verifsim.MapConfig{Mode: verifsim.MapSorted, Seed: o.Seed, Sites: map[int32]int{}}
	for _, s := range only {
		mc.Sites[s] = o.Mode
	}
	return mc
}

// bisect finds one element of sites such that test(subset containing it) is true.
func bisect(sites []int32, test func([]int32) bool) (int32, bool) {
	if len(sites) == 0 || !test(sites) {
		return -1, false
	}
	for len(sites) > 1 {
		half := sites[:len(sites)/2]
		if test(half) {
			sites = half
		} else {
			rest := sites[len(sites)/2:]
			if !test(rest) {
				// needs sites from both halves: keep the whole set, give up narrowing
				return sites[0], false
			}
			sites = rest
		}
	}
	return sites[0], true
}

func execute(t *testing.T, x any, s hx.Sched) *hx.Outcome {
	w := x.(*W)
	switch w.Kind {
	case "corpus":
		return execCorpus(t, w)
	case "genproc":
		// (not under tests/: the corpus listing of other workers must not see it)
		os.MkdirAll(filepath.Join(root(), "genprogs"), 0o755)
		f, err := os.CreateTemp(filepath.Join(root(), "genprogs"), "gen-*.php")
		if err != nil {
			o := &hx.Outcome{}
			o.Inconclusive++
			return o
		}
		f.WriteString(w.Src)
		f.Close()
		defer os.Remove(f.Name())
		c := *w
		c.File = "../genprogs/" + filepath.Base(f.Name())
		o := execCorpus(t, &c)
		// the temp file name must not leak into signatures or hashes
		o.Hash = hx.HashStrings(w.Src)
		for i := range o.Violations {
			o.Violations[i].Detail = strings.ReplaceAll(o.Violations[i].Detail, strings.TrimPrefix(c.File, "../"), "<generated program>") + " program: " + w.Src
		}
		if sm, ok := o.Sample.(map[string]any); ok {
			sm["kind"], sm["file"], sm["program"] = "genproc", "<generated program>", w.Src
		}
		return o
	case "pair":
		return execPair(t, w)
	}
	o := &hx.Outcome{NonTrivial: true}
	ref, reached := runFresh(t, mapCfg(w.Orders[0], nil), w.Src)
	again, _ := runFresh(t, mapCfg(w.Orders[0], nil), w.Src)
	o.Hash = hx.HashStrings(ref.String())
	o.Sample = map[string]any{"kind": "gen", "program": w.Src, "output_sorted_order": ref.Out, "map_sites_reached": len(reached)}
	if ref.String() != again.String() {
		o.Violate("C20/nondeterministic-under-fixed-map-order", fmt.Sprintf("the same program under the same (sorted) map order gave two results: %s vs %s; program: %s", ref, again, w.Src))
		return o
	}
	o.Probe("map_sites_reached_by_programs", int64(len(reached)))
	// 1. determinism across the adversary's orders
	for _, ord := range w.Orders[1:] {
		got, _ := runFresh(t, mapCfg(ord, w.Sites), w.Src)
		o.Fault(fmt.Sprintf("map_order_mode_%d", ord.Mode), 1)
		if got.String() == ref.String() {
			continue
		}
		o.Probe("map_order_changed_output", 1)
		cands := reached
		if w.Sites != nil {
			cands = w.Sites
		}
		site, exact := bisect(cands, func(sub []int32) bool {
			g, _ := runFresh(t, mapCfg(ord, sub), w.Src)
			return g.String() != ref.String()
		})
		name := "several-sites"
		if site >= 0 {
			name = verifsim.MapSiteName(site)
			if !exact {
				name += "+others"
			}
		}
		o.Violate("C20/order/"+name, fmt.Sprintf("output depends on Go map iteration order at %s: sorted order gives %s, order %+v gives %s; program: %s", siteDesc(site), ref, ord, got, w.Src))
		break
	}
	// 2. insertion order: lines the generator knows from construction. Only
	// meaningful when the output does not depend on the map order at all (an
	// order-dependent program is already reported above), and only for lines
	// the program actually printed (it may have ended earlier).
	if len(o.Violations) > 0 {
		return o
	}
	for _, line := range strings.Split(w.Expect, "\n") {
		if line == "" {
			continue
		}
		label, _, _ := strings.Cut(line, "=")
		if !strings.Contains(ref.Out, line+"\n") {
			gotLine := ""
			for _, l := range strings.Split(ref.Out, "\n") {
				if strings.HasPrefix(l, label+"=") {
					gotLine = l
				}
			}
			if gotLine == "" {
				continue
			}
			kind := strings.TrimRight(label, "0123456789")
			o.Violate("C20/insertion-order/"+kind, fmt.Sprintf("expected line %q (insertion order), program printed %q under sorted map order; program: %s", line, gotLine, w.Src))
		}
	}
	return o
}

// include fixtures: files that generated programs require/include by absolute path
// ("@INC@" in a program stands for this directory, which belongs to the scratch tree)
var incFiles = map[string]string{
	"lib_defs.php":  "<?php\nclass IncK { public function tag() { return \"inck\"; } }\nfunction inc_fn() { return \"incfn\"; }\nreturn [\"cfg\" => 1, \"name\" => \"lib\"];\n",
	"lib_ret.php":   "<?php\nreturn [\"a\" => 1, \"b\" => [1, 2]];\n",
	"lib_once.php":  "<?php\nfunction once_fn() { return \"once\"; }\nreturn \"once-ret\";\n",
	"lib_iface.php": "<?php\ninterface IncI { }\nclass IncImpl implements IncI { public $v = 3; }\n",
}

var incOnce sync.Once

// The simulated disk of the replaced-file pairs. A program may start with directive lines
//
//	#@put <name> <mtime-seconds> <hex contents>   the file <swap dir>/<name> has these contents and this mtime when the program starts
//	#@main <mtime-seconds>                       the program itself is the file <swap dir>/main.php and is run from that path
//
// ("@SWAP@" in the program stands for the swap directory, one per OS process, fixed-width name). Two programs of one
// process so see ONE path with two contents: a deployment that replaces a file between two runs. The modification
// time is the disk's to choose: equal times (a coarse timestamp, a copy that preserves times) are legal, and so are
// equal lengths.
func swapDir() string {
	return filepath.Join(root(), "genprogs", fmt.Sprintf("swap-%08d", os.Getpid()))
}

func applyDirectives(src string) (string, string) {
	mainAt := int64(-1)
	for strings.HasPrefix(src, "#@") {
		line, rest, _ := strings.Cut(src, "\n")
		src = rest
		f := strings.Fields(line)
		switch {
		case f[0] == "#@put" && len(f) == 4:
			b, err := hex.DecodeString(f[3])
			if err != nil {
				panic("bad #@put directive: " + line)
			}
			sec, _ := strconv.ParseInt(f[2], 10, 64)
			putFile(filepath.Join(swapDir(), f[1]), strings.ReplaceAll(string(b), "@SWAP@", swapDir()), sec)
		case f[0] == "#@main" && len(f) == 2:
			mainAt, _ = strconv.ParseInt(f[1], 10, 64)
		default:
			panic("bad directive: " + line)
		}
	}
	src = strings.ReplaceAll(src, "@SWAP@", swapDir())
	if mainAt >= 0 {
		p := filepath.Join(swapDir(), "main.php")
		putFile(p, src, mainAt)
		return src, p
	}
	return src, ""
}

func putFile(p, text string, sec int64) {
	os.MkdirAll(filepath.Dir(p), 0o755)
	tmp := p + ".tmp"
	if err := os.WriteFile(tmp, []byte(text), 0o644); err != nil {
		panic(err)
	}
	if err := os.Chtimes(tmp, time.Unix(sec, 0), time.Unix(sec, 0)); err != nil {
		panic(err)
	}
	if err := os.Rename(tmp, p); err != nil {
		panic(err)
	}
}

func incDir() string {
	dir := filepath.Join(root(), "genprogs", "inc")
	incOnce.Do(func() {
		os.MkdirAll(dir, 0o755)
		for name, text := range incFiles {
			p := filepath.Join(dir, name)
			if b, err := os.ReadFile(p); err == nil && string(b) == text {
				continue
			}
			tmp := fmt.Sprintf("%s.%d", p, os.Getpid())
			if err := os.WriteFile(tmp, []byte(text), 0o644); err != nil {
				panic(err)
			}
			os.Rename(tmp, p)
		}
	})
	return dir
}

func siteDesc(site int32) string {
	if site < 0 || int(site) >= len(verifsim.MapSites) {
		return "(not narrowed to one site)"
	}
	return verifsim.MapSites[site]
}

// runChild executes the programs one after another, each on a fresh VM, in a
// FRESH OS PROCESS (this test binary in child mode): whatever program A leaves
// behind can then only reach B through that one process, never through the
// history of the worker.
func runChild(progs ...string) (result, error) {
	f, err := os.CreateTemp(root(), "pair-*.json")
	if err != nil {
		return result{}, err
	}
	defer os.Remove(f.Name())
	b, _ := json.Marshal(progs)
	f.Write(b)
	f.Close()
	ctx, cancel := context.WithTimeout(context.Background(), 60*time.Second)
	defer cancel()
	cmd := exec.CommandContext(ctx, os.Args[0], "-test.run", "^TestChild$", "-test.count", "1")
	cmd.Env = append(os.Environ(), "VERIF_CHILD="+f.Name(), "VERIF_JOB=")
	var so, se bytes.Buffer
	cmd.Stdout, cmd.Stderr = &so, &se
	runErr := cmd.Run()
	out := so.String()
	i := strings.Index(out, "CHILD-RESULT:")
	if i < 0 {
		return result{}, fmt.Errorf("child produced no result (%v): %s %s", runErr, clip(out), clip(se.String()))
	}
	line := out[i+len("CHILD-RESULT:"):]
	if j := strings.IndexByte(line, '\n'); j >= 0 {
		line = line[:j]
	}
	var r result
	if err := json.Unmarshal([]byte(line), &r); err != nil {
		return result{}, err
	}
	return r, nil
}

// TestChild is the child mode of runChild.
func TestChild(t *testing.T) {
	file := os.Getenv("VERIF_CHILD")
	if file == "" {
		t.Skip("child mode only")
	}
	raw, err := os.ReadFile(file)
	if err != nil {
		t.Fatal(err)
	}
	var progs []string
	if err := json.Unmarshal(raw, &progs); err != nil {
		t.Fatal(err)
	}
	hx.InitProcess()
	r, _ := runFresh(t, &verifsim.MapConfig{Mode: verifsim.MapSorted}, progs...)
	// (the swap directory is named after this process: not part of what the program printed)
	r.Out, r.Ctl, r.Throws = strings.ReplaceAll(r.Out, swapDir(), "@SWAP@"), strings.ReplaceAll(r.Ctl, swapDir(), "@SWAP@"), strings.ReplaceAll(r.Throws, swapDir(), "@SWAP@")
	os.RemoveAll(swapDir())
	b, _ := json.Marshal(r)
	fmt.Printf("CHILD-RESULT:%s\n", b)
}

func execPair(t *testing.T, w *W) *hx.Outcome {
	o := &hx.Outcome{NonTrivial: true}
	alone, err1 := runChild(w.Src)
	alone2, err2 := runChild(w.Src)
	after, err3 := runChild(w.A, w.Src)
	if err1 != nil || err2 != nil || err3 != nil {
		// a child that dies without a result (exit(), fatal) tells nothing about B
		o.Inconclusive++
		o.Sample = map[string]any{"kind": "pair", "child_error": fmt.Sprint(err1, err2, err3)}
		return o
	}
	o.Hash = hx.HashStrings(alone.String(), after.String())
	o.Sample = map[string]any{"kind": "pair", "A": w.A, "B": w.Src, "B_alone": alone.String(), "B_after_A": after.String()}
	o.Fault("program_A_left_state_behind", 1)
	if alone.String() != alone2.String() {
		// program B is generated (no clock, no pid, no randomness): two fresh processes must agree on it
		o.Violate("C20/nondeterministic-across-processes", fmt.Sprintf("the same generated program gave two results in two fresh processes: %s vs %s; program: %s", alone, alone2, w.Src))
		return o
	}
	if strings.Contains(w.Src, "basics_fn") && (alone.Ctl != "" || alone.Throws != "" || !strings.Contains(alone.Out, "idx=") ||
		(strings.Contains(w.Src, "json2=") && !strings.Contains(alone.Out, "div="))) {
		// the fixed probe program must run to its end on a clean VM, or it probes nothing
		o.Violate("C20/harness-setup", "the basics probe does not run to completion on a fresh VM: "+alone.String())
		return o
	}
	if alone.String() != after.String() {
		// a leak is a deterministic function of (A, B): it must show again in another fresh process
		again, err := runChild(w.A, w.Src)
		if err != nil || again.String() != after.String() {
			o.Discarded = true
			o.Probe("pair_leak_not_reproduced_in_second_process", 1)
			return o
		}
		// name the first probe line that differs
		what := "control-flow"
		la, lb := strings.Split(alone.Out, "\n"), strings.Split(after.Out, "\n")
		for i := 0; i < len(la) || i < len(lb); i++ {
			x, y := "", ""
			if i < len(la) {
				x = la[i]
			}
			if i < len(lb) {
				y = lb[i]
			}
			if x != y {
				lab := x
				if lab == "" || !strings.Contains(lab, "=") {
					lab = y
				}
				if k, _, ok := strings.Cut(lab, "="); ok {
					what = k
				} else {
					what = "extra-output"
				}
				break
			}
		}
		left := ""
		if len(w.Parts) > 0 {
			left = w.Parts[0]
		}
		o.Violate("C20/leak/"+what, fmt.Sprintf("program B behaves differently on a fresh VM after program A (%s) ran on another fresh VM in the same process: alone %s, after A %s; A: %s B: %s", left, alone, after, w.A, w.Src))
	}
	return o
}

// ---- corpus (subprocess) -----------------------------------------------------------

var (
	tsRe   = regexp.MustCompile(`\d{4}-\d{2}-\d{2} \d{2}:\d{2}:\d{2}`)
	skipRe = regexp.MustCompile(`(?i)\b(rand|mt_rand|random_int|random_bytes|shuffle|array_rand|str_shuffle|uniqid|time|microtime|hrtime|date|gmdate|strtotime|mktime|checkdate|getdate|localtime|strftime|sleep|usleep|spawn|curl_\w+|fsockopen|stream_socket_\w+|file_put_contents|fwrite|fopen|tempnam|tmpfile|mkdir|rmdir|unlink|rename|touch|proc_open|exec|shell_exec|system|passthru|getmypid|memory_get_usage|memory_get_peak_usage|spl_object_id|spl_object_hash|gethostname|php_uname|sys_get_temp_dir|getenv|set_time_limit)\s*\(|new\s+(Server|Channel|DateTime|DateTimeImmutable|PDO|Socket)|Net\\|DB::|Database|Signal|DateTime|Loop::|OS::|websocket|readline|STDIN`)
)

func root() string { return filepath.Dir(os.Args[0]) }

var corpusAll []string

// loadCorpusAll: every script of tests/ (also the time/IO-dependent ones): good
// enough as program A of a pair, whose own output is never compared.
func loadCorpusAll() []string {
	if corpusAll != nil {
		return corpusAll
	}
	corpusAll = []string{}
	base := filepath.Join(root(), "tests")
	filepath.Walk(base, func(p string, info os.FileInfo, err error) error {
		if err != nil || info.IsDir() || !strings.HasSuffix(p, ".php") {
			return nil
		}
		rel, _ := filepath.Rel(base, p)
		b, err := os.ReadFile(p)
		if err != nil || rel == "run_tests.php" || strings.HasPrefix(filepath.Base(rel), "gen-") || noChildRe.Match(b) {
			return nil
		}
		corpusAll = append(corpusAll, rel)
		return nil
	})
	sort.Strings(corpusAll)
	return corpusAll
}

// scripts that would stall or need a network/terminal when run as program A
var noChildRe = regexp.MustCompile(`(?i)->run\(|new\s+Server|Signal|posix_|pcntl_|readline|STDIN|sleep\s*\(\s*[1-9]\d|curl_|fsockopen|proc_open|Loop::`)

func loadCorpus() []string {
	if corpus != nil {
		return corpus
	}
	corpus = []string{}
	base := filepath.Join(root(), "tests")
	filepath.Walk(base, func(p string, info os.FileInfo, err error) error {
		if err != nil || info.IsDir() || !strings.HasSuffix(p, ".php") {
			return nil
		}
		rel, _ := filepath.Rel(base, p)
		if rel == "run_tests.php" || strings.Contains(rel, "fixtures") || strings.Contains(rel, "included") || strings.HasPrefix(filepath.Base(rel), "gen-") {
			return nil
		}
		b, err := os.ReadFile(p)
		if err != nil || skipRe.Match(b) {
			return nil
		}
		corpus = append(corpus, rel)
		return nil
	})
	sort.Strings(corpus)
	return corpus
}

type procResult struct {
	Stdout, Stderr string
	Exit           int
	TimedOut       bool
}

func (p procResult) String() string {
	return fmt.Sprintf("exit=%d stdout=%q stderr=%q", p.Exit, clip(p.Stdout), clip(p.Stderr))
}

func clip(s string) string {
	if len(s) > 600 {
		return s[:300] + "…" + s[len(s)-300:]
	}
	return s
}

var genFileRe = regexp.MustCompile(`gen-\d+\.php`)

func normalise(s string) string {
	s = tsRe.ReplaceAllString(s, "<ts>")
	s = genFileRe.ReplaceAllString(s, "gen.php")
	s = strings.ReplaceAll(s, root(), "<root>")
	return s
}

func runProc(file string, o Order, only []int32) procResult {
	ctx, cancel := context.WithTimeout(context.Background(), 30*time.Second)
	defer cancel()
	cmd := exec.CommandContext(ctx, filepath.Join(root(), "origami-bin"), filepath.Join("tests", file))
	cmd.Dir = root()
	spec := fmt.Sprintf("%d:%d:", o.Mode, o.Seed)
	if only != nil {
		var parts []string
		for _, s := range only {
			parts = append(parts, fmt.Sprintf("%d=%d", s, o.Mode))
		}
		spec = fmt.Sprintf("0:%d:%s", o.Seed, strings.Join(parts, ","))
	}
	cmd.Env = append(os.Environ(), "VERIFSIM_MAP="+spec, "NO_COLOR=1")
	var so, se bytes.Buffer
	cmd.Stdout, cmd.Stderr = &so, &se
	err := cmd.Run()
	pr := procResult{Stdout: normalise(so.String()), Stderr: normalise(se.String())}
	if ctx.Err() != nil {
		pr.TimedOut = true
	}
	if ee, ok := err.(*exec.ExitError); ok {
		pr.Exit = ee.ExitCode()
	} else if err != nil {
		pr.Exit = -1
	}
	return pr
}

func execCorpus(t *testing.T, w *W) *hx.Outcome {
	o := &hx.Outcome{NonTrivial: true}
	ref := runProc(w.File, w.Orders[0], nil)
	again := runProc(w.File, w.Orders[0], nil)
	o.Hash = hx.HashStrings(w.File, ref.String())
	o.Sample = map[string]any{"kind": "corpus", "file": w.File, "result_sorted_order": ref.String()}
	if ref.TimedOut || again.TimedOut {
		o.Inconclusive++
		return o
	}
	if ref.String() != again.String() {
		// not a deterministic program in the first place (clock, pid, …): not a C20 subject
		o.Discarded = true
		o.Probe("corpus_program_not_deterministic_by_itself", 1)
		return o
	}
	o.Probe("corpus_files_run_as_subprocess", 1)
	for _, ord := range w.Orders[1:] {
		got := runProc(w.File, ord, w.Sites)
		o.Fault(fmt.Sprintf("map_order_mode_%d", ord.Mode), 1)
		if got.TimedOut {
			o.Inconclusive++
			continue
		}
		if got.String() == ref.String() {
			continue
		}
		o.Probe("map_order_changed_output", 1)
		var all []int32
		if w.Sites != nil {
			all = w.Sites
		} else {
			for i := range verifsim.MapSites {
				all = append(all, int32(i))
			}
		}
		site, exact := bisect(all, func(sub []int32) bool {
			return runProc(w.File, ord, sub).String() != ref.String()
		})
		name := "several-sites"
		if site >= 0 {
			name = verifsim.MapSiteName(site)
			if !exact {
				name += "+others"
			}
		}
		o.Violate("C20/order/"+name, fmt.Sprintf("tests/%s: stdout/stderr/exit status depend on Go map iteration order at %s: sorted order gives %s, order %+v gives %s", w.File, siteDesc(site), ref, ord, got))
		break
	}
	return o
}

var prop = &hx.Prop{
	ID: "C20", Gen: gen, Decode: decode, Exec: execute, Shrink: shrink,
	Components: map[string]string{
		"interpreter, std/php builtins, data.OrderedMap, class/property machinery, output buffering": "real (instrumented copy of /repo; corpus files run the instrumented origami binary as a subprocess)",
		"Go map iteration order (the adversary)":                                                     "simulated: every range over a map with ordered keys goes through verifsim.MapKeys; the order is sorted, reverse or a seeded permutation per (site, call), chosen by the check",
		"clock":                                                                                      "in-process runs: synctest fake clock; subprocess runs: real clock, timestamps normalised, time-dependent scripts excluded by name",
		"processes":                                                                                  "generated programs and A;B pairs: fresh VMs inside one worker process; corpus: one fresh OS process per run",
	},
}

func TestWorker(t *testing.T) { hx.Main(t, prop) }
