package c11

import (
	"encoding/json"
	"fmt"
	"hash/adler32"
	"hash/crc32"
	"hash/fnv"
	"net/http"
	"net/url"
	"os"
	"path/filepath"
	"regexp"
	"sort"
	"strings"
	"sync"
	"testing"

	"github.com/php-any/origami/data"
	"github.com/php-any/origami/node"
	"github.com/php-any/origami/utils"
	"github.com/php-any/origami/verifharness/hx"
	"github.com/php-any/origami/verifsim"
)

var focus = []string{"node/globals_", "std/net/http/handler.go", "std/net/http/route_dispatch.go", "std/net/http/request_attrs.go",
	"std/net/http/server_handler.go", "std/net/http/middleware_stack.go", "std/net/http/response.go", "runtime/context.go", "runtime/vm.go", "node/class.go"}

// Block is one labelled feature block of a handler; it appends "<label>=<value>;" to the body.
type Block struct {
	Kind string `json:"kind"` // read2 loop arr obj depth closure helper attr
	Acc  string `json:"acc,omitempty"`
	N    int    `json:"n,omitempty"`
	Gate bool   `json:"gate,omitempty"`
}

type Handler struct {
	Method string  `json:"method"`
	Blocks []Block `json:"blocks"`
	Status bool    `json:"status,omitempty"` // sets status 200+k and an echo header
	File   int     `json:"file,omitempty"`   // >0: answers with $res->file() of fixture file number File (the text goes into a header)
	// Resp: "" write($out) | "success" | "error" | "format": answers through the formatted envelope
	// (the text goes into a header); which formatter renders it is decided by where onFormat was registered
	Resp string `json:"resp,omitempty"`
}

// fixture files served by $res->file(): from one to several io.Copy chunks
var fileSizes = []int{0, 100, 33000, 70000, 200000}

func filePath(k int) string {
	return filepath.Join(filepath.Dir(os.Args[0]), "c11files", fmt.Sprintf("f%d.bin", k))
}

func fileBody(k int) string {
	var b strings.Builder
	for b.Len() < fileSizes[k] {
		fmt.Fprintf(&b, "F%d@%07d\n", k, b.Len())
	}
	return b.String()[:fileSizes[k]]
}

var filesOnce sync.Once

func ensureFiles() {
	filesOnce.Do(func() {
		os.MkdirAll(filepath.Dir(filePath(1)), 0o755)
		for k := 1; k < len(fileSizes); k++ {
			if st, err := os.Stat(filePath(k)); err == nil && st.Size() == int64(fileSizes[k]) {
				continue // another worker of this batch wrote it
			}
			tmp := fmt.Sprintf("%s.%d", filePath(k), os.Getpid())
			if err := os.WriteFile(tmp, []byte(fileBody(k)), 0o644); err != nil {
				panic(err)
			}
			os.Rename(tmp, filePath(k))
		}
	})
}

type Req struct {
	H       int    `json:"h"`
	X       string `json:"x"`
	K       int    `json:"k"`
	AbortAt int    `json:"abort_at"`              // block index before which the handler throws (-1: never)
	FailW   bool   `json:"fail_write,omitempty"`  // client write error on this request
	Slow    bool   `json:"slow_client,omitempty"` // slow client: the server task parks in every body write
	Head    bool   `json:"head,omitempty"`        // sent as HEAD if the handler is a GET route
	// Z: an extra query parameter z=<Z>. The collision adversary chooses the Z of two requests so that their query
	// strings (or request URIs) are different strings with the SAME value under a common 32-bit string hash.
	Z string `json:"z,omitempty"`
}

type W struct {
	Handlers []Handler `json:"handlers"`
	MW       int       `json:"middlewares"`
	OnError  bool      `json:"on_error"`
	Reqs     []Req     `json:"requests"`
	// Annot: the handlers are methods of annotated controller classes (#[Controller], #[GetMapping]) in an
	// application directory mounted with $server->boot(), the middlewares are #[Middleware] classes
	Annot bool `json:"annotation_controllers,omitempty"`
	// OnFormatAt: 0 no custom formatter; 1 registered before all routes; 2 after the first route
	// (routes registered earlier keep the default envelope)
	OnFormatAt int `json:"on_format_at,omitempty"`
	// Flood > 0: request 0 is held inside its first middleware (before $next) while one more client sends Flood
	// requests to a trivial route, one after another: a long request among many short ones. Whatever the server
	// keeps per in-flight request must survive any number of other requests.
	Flood int `json:"flood,omitempty"`
	// Collide: "<hash>/<query|uri>": pairs of requests (0,1), (2,3), … carry z parameters chosen by the collision adversary
	Collide string `json:"collide,omitempty"`
}

// accessors: how a handler reads the request parameter that identifies its request
var accessors = map[string]string{
	"$_GET":                 `$_GET["x"]`,
	"$_SERVER.QUERY_STRING": `$_SERVER["QUERY_STRING"]`,
	"$_SERVER.REQUEST_URI":  `$_SERVER["REQUEST_URI"]`,
	"$_COOKIE":              `$_COOKIE["c"]`,
	"$_REQUEST":             `$_REQUEST["x"]`,
	"$_POST":                `$_POST["p"]`,
	"req.query":             `$req->query()->x`,
	"req.header":            `$req->header("X-T")`,
	"req.path":              `$req->path()`,
	"req.formValue":         `$req->formValue("p")`,
	"req.method":            `$req->method()`,
	"req.input":             `$req->input("x")`,
	"req.pathValue":         `$req->pathValue("id")`,
	"req.userAgent":         `$req->userAgent()`,
	"req.referer":           `$req->referer()`,
	"req.fullUrl":           `$req->fullUrl()`,
	"req.postFormValue":     `$req->postFormValue("p")`,
	"req.all":               `json_encode($req->all())`,
	"req.only":              `json_encode($req->only("x"))`,
	"req.body":              `$req->body()`,
	"req.url":               `$req->url()`,
	"req.clone.header":      `$req->clone()->header("X-T")`,
	"req.clone.path":        `$req->clone()->path()`,
	"req.clone.query":       `$req->clone()->query()->x`,
}

var accNames []string

// accessorLabels: segment kinds whose value is request data (label = accessor name without "$")
var accessorLabels = map[string]bool{}

var idRe = regexp.MustCompile(`v(\d+)`)

func init() {
	for k := range accessors {
		accNames = append(accNames, k)
		accessorLabels[strings.ReplaceAll(k, "$", "")] = true
	}
	sort.Strings(accNames)
	accessorLabels["thisclosure"] = true // its value is the request's own X-T header, read through $this
}

func gen(r *verifsim.Rng, tier string) (any, hx.Sched) {
	w := &W{}
	nh := 1 + r.Intn(3)
	kinds := []string{"read2", "read2", "read2", "loop", "arr", "obj", "depth", "closure", "helper",
		"helperg", "objg", "closureg", "trycatch", "strbuild", "sortcb", "nested", "builtins", "hot", "thisclosure"}
	if r.Intn(12) == 0 {
		kinds = append(kinds, "bigbody", "bigbody", "bigbody")
	}
	nr := 2 + r.Intn(4)
	if tier == "thorough" {
		nr = verifsim.Pick(r, []int{2, 3, 4, 6, 8, 12, 16, 24, 32, 64})
	} else if r.Intn(10) == 0 {
		nr = 8
	}
	// The interpreter's call-depth limit (500) is process-wide (a known
	// finding). Runs dedicated to it use deep recursion and nothing else, all
	// other runs keep the summed depth of all in-flight requests well below the
	// limit, so that this one finding cannot show up under other signatures.
	depthRun := r.Intn(6) == 0
	maxDepth := 300 / nr
	if maxDepth > 20 {
		maxDepth = 20
	}
	if depthRun {
		kinds = []string{"depth"}
	}
	for h := 0; h < nh; h++ {
		hd := Handler{Method: verifsim.Pick(r, []string{"get", "get", "post", "post", "put", "delete"}), Status: r.Intn(2) == 0}
		nb := 1 + r.Intn(6)
		for b := 0; b < nb; b++ {
			bl := Block{Kind: verifsim.Pick(r, kinds), Gate: r.Intn(2) == 0}
			switch bl.Kind {
			case "read2":
				bl.Acc = verifsim.Pick(r, accNames)
			case "depth":
				bl.N = 1 + r.Intn(maxDepth)
				if depthRun {
					bl.N = verifsim.Pick(r, []int{40, 90, 150})
				}
			case "loop", "arr":
				bl.N = 1 + r.Intn(6)
			case "hot": // one source location executed hundreds of times within a request
				bl.Acc = verifsim.Pick(r, accNames)
				bl.N = verifsim.Pick(r, []int{40, 300, 300, 700})
			}
			hd.Blocks = append(hd.Blocks, bl)
		}
		if !depthRun && r.Intn(5) == 0 {
			hd.File = 1 + r.Intn(len(fileSizes)-1)
		} else if !depthRun && r.Intn(5) == 0 {
			hd.Resp = verifsim.Pick(r, []string{"success", "error", "format"})
		}
		w.Handlers = append(w.Handlers, hd)
	}
	w.MW = verifsim.Pick(r, []int{0, 0, 0, 1, 2})
	w.Annot = !depthRun && r.Intn(5) == 0
	if r.Intn(4) == 0 {
		// longer chains (a slice built by repeated append has spare capacity at 3, 5, 6 and 7 elements)
		w.MW = 3 + r.Intn(6)
		// (every middleware is one more frame per in-flight request under the process-wide call-depth counter: see above)
		if limit := 150 / (w.MW + 6); nr > limit {
			nr = limit
		}
	}
	if !depthRun {
		w.OnFormatAt = verifsim.Pick(r, []int{0, 0, 1, 2, 2})
	}
	w.OnError = r.Intn(3) == 0
	if depthRun {
		w.MW = 0
	}
	for i := 0; i < nr; i++ {
		q := Req{H: r.Intn(nh), X: fmt.Sprintf("v%d", i), K: 1 + r.Intn(5), AbortAt: -1}
		q.Head = r.Intn(8) == 0
		q.Slow = r.Intn(3) == 0 || (w.Handlers[q.H].File > 0 && r.Intn(2) == 0)
		w.Reqs = append(w.Reqs, q)
	}
	if !depthRun && nr >= 2 && r.Intn(12) == 0 {
		hn := verifsim.Pick(r, hashNames)
		w.Collide = hn + verifsim.Pick(r, []string{"/query", "/query", "/uri"})
		for i := 0; i+1 < nr; i += 2 {
			pa, pb := targetPrefix(w, w.Reqs[i])+"&z=", targetPrefix(w, w.Reqs[i+1])+"&z="
			if strings.HasSuffix(w.Collide, "/query") {
				_, pa, _ = strings.Cut(pa, "?")
				_, pb, _ = strings.Cut(pb, "?")
			}
			if za, zb, ok := collide(r, hash32[hn], pa, pb); ok {
				w.Reqs[i].Z, w.Reqs[i+1].Z = za, zb
			}
		}
	}
	if !depthRun && w.Collide == "" && r.Intn(150) == 0 {
		w.Flood = verifsim.Pick(r, []int{300, 600, 1100, 1100, 2100})
		w.Annot = false
		if w.MW == 0 {
			w.MW = 1
		}
		w.OnFormatAt = verifsim.Pick(r, []int{1, 1, 0})
		if r.Intn(3) != 0 {
			w.Handlers[w.Reqs[0].H].File = 0
			w.Handlers[w.Reqs[0].H].Resp = verifsim.Pick(r, []string{"success", "error", "format"})
		}
		if len(w.Reqs) > 3 {
			w.Reqs = w.Reqs[:3]
			nr = 3
		}
	}
	// faults: at most one aborted and one write-failed request per run, in a subset of runs
	if depthRun {
		// no other faults in depth runs
	} else if r.Intn(4) == 0 {
		q := &w.Reqs[r.Intn(nr)]
		q.AbortAt = r.Intn(len(w.Handlers[q.H].Blocks) + 1)
	}
	if !depthRun && r.Intn(5) == 0 {
		w.Reqs[r.Intn(nr)].FailW = true
	}
	s := hx.SwarmSched(r, focus)
	s.MeanGap = verifsim.Pick(r, []int64{30, 100, 300, 1000, 3000, 30000})
	s.FocusWeight = verifsim.Pick(r, []int32{1, 10, 100})
	s.MaxSteps = 2000000
	if w.Flood > 0 {
		s.MaxSteps = 400000000
		s.MeanGap = verifsim.Pick(r, []int64{3000, 30000, 300000})
	}
	// no map-order adversary here (that is C20's subject): the solo oracle and
	// the concurrent run both see sorted map iteration
	s.MapMode = verifsim.MapSorted
	return w, s
}

func decode(raw json.RawMessage) (any, error) {
	w := &W{}
	return w, json.Unmarshal(raw, w)
}

func shrink(x any) []any {
	w := x.(*W)
	var out []any
	cp := func() *W {
		b, _ := json.Marshal(w)
		c := &W{}
		json.Unmarshal(b, c)
		return c
	}
	for i := range w.Reqs {
		if len(w.Reqs) > 1 {
			c := cp()
			c.Reqs = append(c.Reqs[:i], c.Reqs[i+1:]...)
			out = append(out, c)
		}
	}
	for h := range w.Handlers {
		for b := range w.Handlers[h].Blocks {
			if len(w.Handlers[h].Blocks) > 1 {
				c := cp()
				c.Handlers[h].Blocks = append(c.Handlers[h].Blocks[:b], c.Handlers[h].Blocks[b+1:]...)
				for i := range c.Reqs {
					if c.Reqs[i].H == h && c.Reqs[i].AbortAt > b {
						c.Reqs[i].AbortAt--
					}
				}
				out = append(out, c)
			}
			if w.Handlers[h].Blocks[b].Kind == "depth" && w.Handlers[h].Blocks[b].N > 1 {
				c := cp()
				c.Handlers[h].Blocks[b].N /= 2
				out = append(out, c)
			}
		}
	}
	if w.MW > 0 {
		c := cp()
		c.MW--
		out = append(out, c)
	}
	if w.OnError {
		c := cp()
		c.OnError = false
		out = append(out, c)
	}
	for i := range w.Reqs {
		if w.Reqs[i].AbortAt >= 0 {
			c := cp()
			c.Reqs[i].AbortAt = -1
			out = append(out, c)
		}
		if w.Reqs[i].FailW {
			c := cp()
			c.Reqs[i].FailW = false
			out = append(out, c)
		}
		if w.Reqs[i].Slow {
			c := cp()
			c.Reqs[i].Slow = false
			out = append(out, c)
		}
	}
	for h := range w.Handlers {
		if w.Handlers[h].File > 1 {
			c := cp()
			c.Handlers[h].File--
			out = append(out, c)
		}
	}
	return out
}

func script(w *W, appDir string) (string, map[string]string) {
	files := map[string]string{}
	var b strings.Builder
	b.WriteString(`<?php
use Net\Http\Server;
class Acc {
  public $v = 0;
  public $log = [];
  public function add($n) { $this->v = $this->v + $n; return $this; }
  public function addg($n, $who) { $t = $n; $w = $who; __gate(); $this->v = $this->v + $t; $this->log[] = $w; return $this; }
  public function down($n) { if ($n <= 0) { __gate(); return 0; } return 1 + $this->down($n - 1); }
}
class Holder {
  public $t;
  public function __construct($t) { $this->t = $t; }
  public function viaClosure() { $f = function() { return $this->t; }; return $f(); }
  public function viaClosureG() { $f = function($s) { $mine = $this->t; __gate(); return $mine . $s; }; return $f("~"); }
  public function viaMap() { return implode(",", array_map(function($x) { return $this->t . $x; }, ["a", "b"])); }
  public function viaNested() { $f = function() { $g = function() { return $this->t; }; return $g(); }; return $f(); }
}
function helper($a, $b) { return $a . "-" . $b; }
function helperg($a, $b) { $x = $a; $y = $b; __gate(); $z = $x . "+" . $y; __gate(); return $z; }
function outerfn($a, $n) { if ($n <= 0) { return innerfn($a); } return outerfn($a . ".", $n - 1); }
function innerfn($a) { $loc = "<" . $a . ">"; __gate(); return $loc; }
function thrower($a) { throw new Exception("boom-" . $a); }
$server = new Server('127.0.0.1', 0);
`)
	if w.OnError {
		b.WriteString("$server->onError(function ($request, $response, $error) {\n  __err($request->header(\"X-Id\"), $error);\n  $response->status(500)->write(\"E:\" . $request->header(\"X-T\") . \":\" . $error);\n});\n")
	}
	onFormat := "$server->onFormat(function ($code, $message, $data) {\n  return [\"c\" => $code, \"m\" => $message, \"d\" => $data, \"fmt\" => \"custom\"];\n});\n"
	if w.OnFormatAt == 1 {
		b.WriteString(onFormat)
	}
	mwAttrs := ""
	for i := 0; w.Annot && i < w.MW; i++ {
		files[fmt.Sprintf("C11Mw%d.php", i)] = fmt.Sprintf("<?php\nclass C11Mw%d {\n  public function handle($request, $response, $next) {\n    $t = $request->header(\"X-T\");\n    $response->header(\"X-MW%d\", $t);\n    __gate();\n    $next($request, $response);\n    $request->attribute(\"after%d\", $t);\n  }\n}\n", i, i, i)
		mwAttrs += fmt.Sprintf("#[Middleware(C11Mw%d::class)]\n", i)
	}
	for i := 0; !w.Annot && i < w.MW; i++ {
		hold := ""
		if w.Flood > 0 && i == 0 {
			hold = "  __hold($request->header(\"X-Id\"));\n"
		}
		fmt.Fprintf(&b, "$server->middleware(function ($request, $response, $next) {\n  $t = $request->header(\"X-T\");\n  $response->header(\"X-MW%d\", $t);\n"+hold+"  __gate();\n  $next($request, $response);\n  $request->attribute(\"after%d\", $t);\n}, %d);\n", i, i, i)
	}
	main := &b
	for h, hd := range w.Handlers {
		b := main
		if w.Annot {
			b = &strings.Builder{}
			fmt.Fprintf(b, "<?php\nuse Net\\Annotation\\Controller;\nuse Net\\Annotation\\GetMapping;\nuse Net\\Annotation\\PostMapping;\nuse Net\\Annotation\\PutMapping;\nuse Net\\Annotation\\DeleteMapping;\nuse Net\\Annotation\\Route;\nuse Net\\Annotation\\Middleware;\n%s#[Controller]\n#[Route(prefix: \"/a\")]\nclass C11H%d {\n#[%sMapping(path: \"/h%d/{id}\")]\npublic function handle($req, $res) {\n  $out = \"\";\n  $id = $req->header(\"X-Id\");\n  $k = (int)$req->header(\"X-K\");\n",
				mwAttrs, h, map[string]string{"get": "Get", "post": "Post", "put": "Put", "delete": "Delete"}[hd.Method], h)
		} else {
			fmt.Fprintf(b, "$server->%s('/h%d/{id}', function ($req, $res) {\n  $out = \"\";\n  $id = $req->header(\"X-Id\");\n  $k = (int)$req->header(\"X-K\");\n", hd.Method, h)
		}
		for bi, bl := range hd.Blocks {
			fmt.Fprintf(b, "  __fail($id, %d);\n", bi)
			lab := fmt.Sprintf("b%d.%s", bi, bl.Kind)
			gate := ""
			if bl.Gate {
				gate = " __gate();"
			}
			switch bl.Kind {
			case "read2":
				lab = fmt.Sprintf("b%d.%s", bi, strings.ReplaceAll(bl.Acc, "$", "")) // no "$": it would interpolate
				fmt.Fprintf(b, "  $a1 = %s;%s $a2 = %s;\n  $out .= \"%s=\" . $a1 . \"|\" . $a2 . \";\";\n", accessors[bl.Acc], gate, accessors[bl.Acc], lab)
			case "hot":
				lab = fmt.Sprintf("b%d.%s", bi, strings.ReplaceAll(bl.Acc, "$", ""))
				fmt.Fprintf(b, "  $hv = \"\"; $ho = new Acc(); for ($hi = 0; $hi < %d; $hi++) { $hv = %s; $ho->add(1); }%s\n  $out .= \"%s=\" . $hv . \"|\" . $hv . \";\";\n", bl.N, accessors[bl.Acc], gate, lab)
			case "loop":
				fmt.Fprintf(b, "  $s = 0; for ($i = 0; $i < %d; $i++) { $s += $i * $k;%s }\n  $out .= \"%s=\" . $s . \";\";\n", bl.N, gate, lab)
			case "arr":
				fmt.Fprintf(b, "  $arr = []; $x0 = $req->header(\"X-T\"); for ($i = 0; $i < %d; $i++) { $arr[$i] = $x0 . $i; }%s\n  $out .= \"%s=\" . implode(\",\", $arr) . \";\";\n", bl.N, gate, lab)
			case "obj":
				fmt.Fprintf(b, "  $o = new Acc(); $o->add($k);%s $o->add(2);\n  $out .= \"%s=\" . $o->v . \";\";\n", gate, lab)
			case "depth":
				fmt.Fprintf(b, "  $o2 = new Acc();\n  $out .= \"%s=\" . $o2->down(%d) . \";\";\n", lab, bl.N)
			case "closure":
				fmt.Fprintf(b, "  $t0 = $req->header(\"X-T\"); $f = function($z) use ($t0, $k) { return $t0 . \":\" . ($z + $k); };%s\n  $out .= \"%s=\" . $f(10) . \";\";\n", gate, lab)
			case "thisclosure":
				// an object of this request whose methods read $this inside closures WITHOUT a use clause
				fmt.Fprintf(b, "  $hold = new Holder($req->header(\"X-T\"));%s\n  $out .= \"%s=\" . $hold->viaClosure() . \"|\" . $hold->viaClosureG() . \"|\" . $hold->viaMap() . \"|\" . $hold->viaNested() . \";\";\n", gate, lab)
			case "helper":
				fmt.Fprintf(b, "  $t1 = $req->header(\"X-T\");%s\n  $out .= \"%s=\" . helper($t1, $k) . \";\";\n", gate, lab)
			case "helperg":
				fmt.Fprintf(b, "  $t2 = $req->header(\"X-T\");\n  $out .= \"%s=\" . helperg($t2, $k) . \";\";\n", lab)
			case "objg":
				fmt.Fprintf(b, "  $og = new Acc(); $tg = $req->header(\"X-T\"); $og->addg($k, $tg)->addg(1, $tg);\n  $out .= \"%s=\" . $og->v . \":\" . implode(\",\", $og->log) . \";\";\n", lab)
			case "closureg":
				fmt.Fprintf(b, "  $t3 = $req->header(\"X-T\"); $fg = function($z) use ($t3, $k) { $mine = $t3; __gate(); return $mine . \":\" . ($z + $k); };\n  $out .= \"%s=\" . $fg(10) . \";\";\n", lab)
			case "trycatch":
				fmt.Fprintf(b, "  $t4 = $req->header(\"X-T\"); $caught = \"none\";\n  try {%s thrower($t4); } catch (Exception $e) {%s $caught = $e->getMessage(); } finally { $fin = $t4; }\n  $out .= \"%s=\" . $caught . \"/\" . $fin . \";\";\n", gate, gate, lab)
			case "strbuild":
				fmt.Fprintf(b, "  $t5 = $req->header(\"X-T\"); $parts = [];\n  for ($i = 0; $i < 4; $i++) { $parts[] = $t5 . $i;%s }\n  $out .= \"%s=\" . implode(\"|\", $parts) . strlen(str_repeat($t5, 3)) . \";\";\n", gate, lab)
			case "sortcb":
				fmt.Fprintf(b, "  $t6 = $req->header(\"X-T\"); $sv = [3, 1, 2];\n  usort($sv, function($x, $y) use ($t6) { __gate(); return $x - $y; });\n  $out .= \"%s=\" . $t6 . implode(\"\", $sv) . \";\";\n", lab)
			case "bigbody": // response bodies far above typical buffer sizes
				fmt.Fprintf(b, "  $t8 = $req->header(\"X-T\");\n  $out .= \"%s=\" . str_repeat($t8 . \".\", %d) . \";\";\n", lab, []int{9000, 14000, 40000}[bi%3])
			case "builtins": // commonly used builtins that may keep scratch state
				fmt.Fprintf(b, "  $t9 = $req->header(\"X-T\");%s\n  $out .= \"%s=\" . json_encode([\"t\" => $t9, \"k\" => $k]) . sprintf(\"%%s-%%05d\", $t9, $k) . str_replace(\"t\", \"T\", $t9) . strtoupper($t9) . implode(\"+\", explode(\"v\", $t9)) . str_pad($t9, 8, \"*\") . md5($t9) . substr($t9, 1) . ucfirst($t9) . count(str_split($t9)) . preg_replace(\"/v(\\\\d+)/\", \"V$1\", $t9) . \";\";\n", gate, lab)
			case "nested":
				fmt.Fprintf(b, "  $t7 = $req->header(\"X-T\");\n  $out .= \"%s=\" . outerfn($t7, %d) . \";\";\n", lab, 1+bi%3)
			case "attr":
				fmt.Fprintf(b, "  $req->attribute(\"who\", $req->header(\"X-T\"));%s\n  $out .= \"%s=\" . $req->attribute(\"who\") . \";\";\n", gate, lab)
			}
		}
		fmt.Fprintf(b, "  __fail($id, %d);\n", len(hd.Blocks))
		if hd.Status {
			b.WriteString("  $res->status(200 + $k);\n  $res->header(\"X-Echo\", $req->header(\"X-T\"));\n")
		}
		closing := "});\n"
		if w.Annot {
			closing = "}\n}\n"
		} else if w.OnFormatAt == 2 && h == 0 {
			closing += onFormat // every later route is registered with the custom formatter
		}
		if hd.Resp != "" {
			call := map[string]string{"success": "$res->success([\"k\" => $k]);", "error": "$res->error(\"e\" . $k, 400 + $k);", "format": "$res->format(210 + $k, \"f\" . $k, [\"k\" => $k]);"}[hd.Resp]
			fmt.Fprintf(b, "  $res->header(\"X-Out\", $out);\n  %s\n%s", call, closing)
		} else if hd.File > 0 {
			fmt.Fprintf(b, "  $res->header(\"X-Out\", $out);\n  $res->file(%q, \"dl-\" . $req->header(\"X-T\") . \".bin\");\n%s", filePath(hd.File), closing)
		} else {
			b.WriteString("  $res->write($out);\n" + closing)
		}
		if w.Annot {
			files[fmt.Sprintf("C11H%d.php", h)] = b.String()
		}
	}
	if w.Annot {
		files["App.php"] = "<?php\nuse Net\\Annotation\\Application;\n#[Application(name: 'c11', scan: __DIR__)]\nclass C11App {\n  public static function boot(): void { }\n}\n"
		fmt.Fprintf(main, "require %q;\n$routes = $server->boot(C11App::class);\n__rec(\"routes\", json_encode($routes));\n", filepath.Join(appDir, "App.php"))
		if w.OnFormatAt == 2 {
			main.WriteString(onFormat) // registered after the annotation routes were mounted
		}
	}
	if w.Flood > 0 {
		main.WriteString("$server->get(\"/ping\", function ($req, $res) { $res->write(\"pong\"); });\n")
	}
	return main.String(), files
}

func targetPrefix(w *W, q Req) string {
	target := fmt.Sprintf("/h%d/id%s?x=%s&k=%d", q.H, q.X, q.X, q.K)
	if w.Annot {
		target = "/a" + target
	}
	return target
}

// The collision adversary. Whatever the server remembers per request string under a short hash (a memo of parsed
// queries, a routing cache) must still tell two requests apart when their strings collide: it picks the free
// parameter z of two requests by a birthday search so that the two query strings (or the two request URIs)
// are different and hash alike. 2 x 130000 candidates give a 32-bit collision with probability > 0.98.
var hash32 = map[string]func(string) uint32{
	"fnv1a": func(s string) uint32 { h := fnv.New32a(); h.Write([]byte(s)); return h.Sum32() },
	"fnv1":  func(s string) uint32 { h := fnv.New32(); h.Write([]byte(s)); return h.Sum32() },
	"crc32": func(s string) uint32 { return crc32.ChecksumIEEE([]byte(s)) },
	"crc32c": func(s string) uint32 {
		return crc32.Checksum([]byte(s), crc32cTable)
	},
	"adler32": func(s string) uint32 { return adler32.Checksum([]byte(s)) },
	"times31": func(s string) uint32 { // Java's String.hashCode
		var h uint32
		for i := 0; i < len(s); i++ {
			h = h*31 + uint32(s[i])
		}
		return h
	},
	"djb2": func(s string) uint32 {
		h := uint32(5381)
		for i := 0; i < len(s); i++ {
			h = h*33 + uint32(s[i])
		}
		return h
	},
}

var crc32cTable = crc32.MakeTable(crc32.Castagnoli)

var hashNames = []string{"fnv1a", "fnv1a", "fnv1", "crc32", "crc32c", "adler32", "times31", "djb2"}

// collide returns suffixes za, zb (no 'v': request identities are v<number>) with h(pa+za) == h(pb+zb).
func collide(r *verifsim.Rng, h func(string) uint32, pa, pb string) (string, string, bool) {
	const alpha = "abcdefghijklmnopqrstuwxyz0123456789"
	suffix := func() string {
		b := make([]byte, 9)
		for i := range b {
			b[i] = alpha[r.Intn(len(alpha))]
		}
		return string(b)
	}
	seen := make(map[uint32]string, 130000)
	for i := 0; i < 130000; i++ {
		z := suffix()
		seen[h(pa+z)] = z
	}
	for i := 0; i < 400000; i++ {
		z := suffix()
		if za, ok := seen[h(pb+z)]; ok {
			return za, z, true
		}
	}
	return "", "", false
}

func request(w *W, i int) *http.Request {
	q := w.Reqs[i]
	hd := w.Handlers[q.H]
	target := targetPrefix(w, q)
	if q.Z != "" {
		target += "&z=" + q.Z
	}
	var form url.Values
	method := strings.ToUpper(hd.Method)
	if hd.Method == "post" || hd.Method == "put" {
		form = url.Values{"p": {"p" + q.X}}
	}
	if hd.Method == "get" && q.Head {
		method = "HEAD" // routed to the GET route
	}
	return hx.NewRequest(method, target, form, map[string]string{"c": "c" + q.X},
		map[string]string{"X-T": "t" + q.X, "X-Id": fmt.Sprint(i), "X-K": fmt.Sprint(q.K), "User-Agent": "ua-" + q.X, "Referer": "http://ref.local/" + q.X})
}

type obs struct {
	Err    string // what the error handler was told (logged by the script through __err), if anything
	Status int
	Hdr    string
	Body   string
	Panic  string
	Codes  []int
	xout   string // value of the X-Out header (file handlers)
}

func (o obs) String() string {
	body := o.Body
	if len(body) > 3000 { // long bodies: head, tail, length and hash (still decides equality)
		body = fmt.Sprintf("%s…%s (%d bytes, fnv %x)", body[:300], body[len(body)-100:], len(body), fnv64(body))
	}
	return fmt.Sprintf("status=%d commits=%v hdr=%s body=%q panic=%q err=%q", o.Status, o.Codes, o.Hdr, body, o.Panic, o.Err)
}

func fnv64(s string) uint64 {
	h := fnv.New64a()
	h.Write([]byte(s))
	return h.Sum64()
}

func observe(c *hx.SimConn, p any) obs {
	o := obs{Status: c.Status(), Body: c.Body.String(), Codes: c.CommitCodes()}
	h := http.Header{}
	for k, v := range c.SentHeader() {
		if strings.HasPrefix(k, "X-") || k == "Content-Type" || k == "Content-Disposition" {
			h[k] = v
		}
	}
	o.Hdr = hx.HeaderString(h)
	o.xout = c.SentHeader().Get("X-Out")
	if p != nil {
		if ctl, ok := p.(data.Control); ok {
			o.Panic = ptrRe.ReplaceAllString(firstLine(hx.CtlStr(ctl)), "0x…")
		} else {
			o.Panic = firstLine(fmt.Sprint(p))
		}
	}
	return o
}

func firstLine(s string) string {
	if i := strings.IndexByte(s, '\n'); i >= 0 {
		s = s[:i]
	}
	if len(s) > 400 {
		s = s[:400]
	}
	return s
}

// boot creates a fresh interpreter, runs the server script and returns its mux.
func boot(w *W, src string, errs []string) (*hx.Env, *http.ServeMux, string) {
	env := hx.NewEnv()
	env.VM.AddFunc(&hx.GoFunc{Name: "__err", Params: []string{"id", "msg"}, Fn: func(ctx data.Context, a []data.Value) (data.GetValue, data.Control) {
		id := atoi(hx.ValStr(a[0]))
		if id >= 0 && id < len(errs) {
			errs[id] = ptrRe.ReplaceAllString(firstLine(hx.ValStr(a[1])), "0x…")
		}
		return data.NewNullValue(), nil
	}})
	env.VM.AddFunc(&hx.GoFunc{Name: "__fail", Params: []string{"id", "k"}, Fn: func(ctx data.Context, a []data.Value) (data.GetValue, data.Control) {
		id := atoi(hx.ValStr(a[0]))
		if id >= 0 && id < len(w.Reqs) && w.Reqs[id].AbortAt == atoi(hx.ValStr(a[1])) {
			return nil, utils.NewThrowf("injected abort of request %d before block %s", id, hx.ValStr(a[1]))
		}
		return data.NewNullValue(), nil
	}})
	env.VM.AddFunc(&hx.GoFunc{Name: "__hold", Params: []string{"id"}, Fn: func(ctx data.Context, a []data.Value) (data.GetValue, data.Control) {
		// request 0 of a flood run waits here until the flood client is done (a durable block inside the bubble)
		if ch := holdCh; ch != nil && hx.ValStr(a[0]) == "0" {
			<-ch
			verifsim.Checkpoint()
		}
		return data.NewNullValue(), nil
	}})
	ctx, vars, ctl := env.Run(src, "/verif/c11.php")
	if ctl != nil {
		return nil, nil, hx.CtlStr(ctl)
	}
	mux, err := hx.MuxOf(hx.Var(ctx, vars, "server"))
	if err != nil {
		return nil, nil, err.Error()
	}
	return env, mux, ""
}

func atoi(s string) int {
	n := 0
	fmt.Sscan(s, &n)
	return n
}

func serveOne(w *W, mux *http.ServeMux, i int) obs {
	c := hx.NewSimConn()
	if w.Reqs[i].FailW {
		c.FailWriteAt = 1
	}
	c.Stall = w.Reqs[i].Slow
	p := hx.Serve(mux, c, request(w, i))
	return observe(c, p)
}

var appSeq int

// holdCh: closed by the flood client of the concurrent run; nil while the solo oracle runs (no hold there)
var holdCh chan struct{}
var floodServed int64

func exec(t *testing.T, x any, s hx.Sched) *hx.Outcome {
	w := x.(*W)
	o := &hx.Outcome{}
	ensureFiles()
	// every case starts from what a fresh process has: the superglobal caches are package-level
	// variables that annotation-controller routes never reset, so they would carry one case's last
	// request into the next case of this worker (process history, C20's subject: its leak probes list it)
	node.ResetSuperglobals()
	appDir := ""
	if w.Annot {
		appSeq++
		appDir = filepath.Join(filepath.Dir(os.Args[0]), "c11apps", fmt.Sprintf("%d-%d", os.Getpid(), appSeq))
		defer os.RemoveAll(appDir)
	}
	src, files := script(w, appDir)
	if len(files) > 0 {
		os.MkdirAll(appDir, 0o755)
		for name, text := range files {
			if err := os.WriteFile(filepath.Join(appDir, name), []byte(text), 0o644); err != nil {
				panic(err)
			}
		}
	}
	// solo oracle: a second fresh interpreter serves the same requests strictly one at a time. It runs as the
	// only task of a simulation of its own, so that the seams (map order, sync.Pool, select, rand) are as
	// deterministic for it as for the concurrent run
	soloErrs := make([]string, len(w.Reqs))
	solo := make([]obs, len(w.Reqs))
	solo2 := make([]obs, len(w.Reqs))
	var soloEnv *hx.Env
	var err string
	hx.RunBubble(t, verifsim.Config{Seed: s.Seed, MeanGap: 1 << 30, MaxSteps: 4000000, MapMode: verifsim.MapSorted}, func(sim *verifsim.Sim) {
		sim.Spawn("solo", func() {
			var soloMux *http.ServeMux
			soloEnv, soloMux, err = boot(w, src, soloErrs)
			if err != "" {
				return
			}
			soloEnv.Capture()
			for i := range w.Reqs {
				solo[i] = serveOne(w, soloMux, i)
				solo[i].Err = soloErrs[i]
			}
			for i := len(w.Reqs) - 1; i >= 0; i-- {
				solo2[i] = serveOne(w, soloMux, i)
				solo2[i].Err = soloErrs[i]
			}
		})
	})
	data.ResetOutputWriter()
	if err != "" {
		o.Violate("C11/harness-setup", "server script failed: "+err)
		return o
	}
	for i := range solo {
		// the generated handlers must work when run alone, or they test nothing
		if w.Reqs[i].AbortAt < 0 && !w.Reqs[i].FailW {
			ok := solo[i].Panic == "" && solo[i].Err == ""
			for bi := range w.Handlers[w.Reqs[i].H].Blocks {
				if !strings.Contains(solo[i].Body+solo[i].Hdr, fmt.Sprintf("b%d.", bi)) {
					ok = false
				}
			}
			if f := w.Handlers[w.Reqs[i].H].File; f > 0 && solo[i].Body != fileBody(f) {
				ok = false
			}
			if !ok {
				o.Violate("C11/harness-setup", fmt.Sprintf("a generated handler does not run to completion when served alone: %s; uncaught: %v; script: %s", solo[i], soloEnv.Throws, src))
				return o
			}
		}
		// absolute oracle for request data (no concurrency involved): whatever a handler reads through
		// the request object or the superglobals carries this request's own id (x=v<i>, c=cv<i>, p=pv<i>,
		// X-T: tv<i>, ...), never another request's, also when requests are served one after another
		for _, sv := range []obs{solo[i], solo2[i]} {
			for _, seg := range strings.Split(sv.Body+sv.xout, ";") {
				lab, val, ok := strings.Cut(seg, "=")
				if !ok || !strings.Contains(lab, ".") {
					continue
				}
				_, kind, _ := strings.Cut(lab, ".")
				if _, isAcc := accessorLabels[kind]; !isAcc {
					continue
				}
				for _, m := range idRe.FindAllStringSubmatch(val, -1) {
					if m[1] != w.Reqs[i].X[1:] {
						o.Violate("C11/sequential/foreign-request-data/"+kind, fmt.Sprintf("request %d (%s) served ALONE (requests one after another on a fresh VM) read %s = %q, which carries the data of request %s; script: %s", i, request(w, i).RequestURI, kind, val, m[1], src))
					}
				}
			}
		}
		if len(o.Violations) > 0 {
			return o
		}
		if solo[i].String() != solo2[i].String() {
			// served one at a time in two different orders on the same VM, the request got two different
			// responses: the generated handlers are pure functions of their request, so an earlier request
			// left something behind that a later one read
			kinds := diffSegments(solo[i].Body+solo[i].xout, solo2[i].Body+solo2[i].xout)
			if len(kinds) == 0 {
				kinds = []string{"status-or-header"}
			}
			for _, k := range kinds {
				o.Violate("C11/sequential/order-dependent/"+k, fmt.Sprintf("request %d (%s) served alone answers %s after requests 0..%d and %s after requests %d..%d (same VM, one request at a time); script: %s", i, request(w, i).RequestURI, solo[i], i-1, solo2[i], len(w.Reqs)-1, i+1, src))
			}
			return o
		}
	}
	conc := make([]obs, len(w.Reqs))
	concErrs := make([]string, len(w.Reqs))
	var setupErr string
	var env *hx.Env
	res := hx.RunBubble(t, s.Config(0), func(sim *verifsim.Sim) {
		var mux *http.ServeMux
		env, mux, setupErr = boot(w, src, concErrs)
		if setupErr == "" && len(env.Throws) > 0 {
			setupErr = "uncaught while the server script ran: " + strings.Join(env.Throws, "; ")
		}
		if setupErr != "" {
			return
		}
		env.Capture()
		for i := range w.Reqs {
			i := i
			sim.Spawn(fmt.Sprintf("client%d", i), func() {
				conc[i] = serveOne(w, mux, i)
			})
		}
		if w.Flood > 0 {
			holdCh = make(chan struct{})
			ch := holdCh
			sim.Spawn("flood", func() {
				for k := 0; k < w.Flood; k++ {
					c := hx.NewSimConn()
					hx.Serve(mux, c, hx.NewRequest("GET", "/ping", nil, nil, map[string]string{"X-T": "ping", "X-Id": "-1"}))
					if c.Body.String() == "pong" {
						floodServed++
					}
				}
				close(ch)
			})
		}
	})
	holdCh = nil
	data.ResetOutputWriter()
	o.Res = res
	if w.Flood > 0 {
		o.Fault("requests_served_while_one_request_was_held", floodServed)
		floodServed = 0
	}
	if setupErr != "" {
		o.Violate("C11/harness-setup", "server script failed: "+setupErr)
		return o
	}
	var hs []string
	for i := range conc {
		conc[i].Err = concErrs[i]
		hs = append(hs, conc[i].String())
	}
	o.Hash = verifsim.Mix(hx.HashResult(res), hx.HashStrings(hs...))
	o.NonTrivial = res.Switches > int64(len(w.Reqs))
	var ss []string
	for i := range solo {
		ss = append(ss, solo[i].String())
	}
	o.Sample = map[string]any{"workload": w, "concurrent": hs, "alone": ss, "script": src, "outcome": res.Outcome}
	for _, p := range res.Panics {
		o.Violate(hx.PanicSig("C11", p), "client task panicked outside the handler: "+p.Value)
	}
	if res.Outcome != verifsim.OutDone {
		if res.Outcome == verifsim.OutDeadlock {
			var bl []string
			for _, b := range res.Blocked {
				bl = append(bl, fmt.Sprintf("%s %s at %s", b.Task, b.State, b.Site))
			}
			o.Violate("C11/deadlock", "in-flight requests deadlocked: "+strings.Join(bl, "; "))
		} else if res.Outcome == verifsim.OutStepLimit {
			o.Inconclusive++
		}
		return o
	}
	inflight := 0
	for i := range w.Reqs {
		if w.Reqs[i].AbortAt >= 0 {
			o.Fault("handler_abort", 1)
		}
		if w.Reqs[i].FailW {
			o.Fault("client_write_error", 1)
		}
		if w.Reqs[i].Slow {
			o.Fault("slow_client_parks_in_body_writes", 1)
		}
		if w.Handlers[w.Reqs[i].H].File > 0 {
			o.Probe("file_responses", 1)
		}
		inflight++
		a, b := conc[i], solo[i]
		if a.String() == b.String() {
			continue
		}
		// classify the difference
		detail := fmt.Sprintf("request %d (%s %s) served among %d in-flight requests: %s; alone: %s", i, w.Handlers[w.Reqs[i].H].Method, request(w, i).RequestURI, len(w.Reqs), a, b)
		// why the request failed (if it did): what the error handler was told, else the panic that left the handler
		fa, fb := a.Err, b.Err
		if fa == "" {
			fa = a.Panic
		}
		if fb == "" {
			fb = b.Panic
		}
		switch {
		case fa != fb:
			msg := fa
			if msg == "" {
				msg = "solo-only: " + fb
			}
			o.Violate("C11/failed-only-when-concurrent/"+normMsg(msg), detail)
		case a.xout != b.xout: // file handlers carry their text in a header
			for _, k := range diffSegments(a.xout, b.xout) {
				o.Violate("C11/segment/"+k, detail)
			}
		case a.Body != b.Body && w.Handlers[w.Reqs[i].H].File > 0:
			o.Violate("C11/file-body", detail)
		case a.Body != b.Body && w.Handlers[w.Reqs[i].H].Resp != "":
			o.Violate("C11/envelope/"+w.Handlers[w.Reqs[i].H].Resp, detail)
		case a.Body != b.Body:
			for _, k := range diffSegments(a.Body, b.Body) {
				o.Violate("C11/segment/"+k, detail)
			}
		case a.Status != b.Status || fmt.Sprint(a.Codes) != fmt.Sprint(b.Codes):
			o.Violate("C11/status", detail)
		default:
			o.Violate("C11/header", detail)
		}
	}
	o.Probe("requests_compared", int64(inflight))
	if w.Annot {
		o.Probe("annotation_controller_runs", 1)
	}
	if res.Switches > int64(len(w.Reqs)) {
		o.Probe("runs_with_requests_interleaved", 1)
	}
	return o
}

var ptrRe = regexp.MustCompile(`0x[0-9a-f]+`)

var segStart = regexp.MustCompile(`b\d+\.`)

func normMsg(s string) string {
	// a body assembled from several requests may follow the message: cut it off
	if loc := segStart.FindStringIndex(s); loc != nil {
		s = s[:loc[0]]
	}
	// drop digits so that ids/depths do not split one finding into many
	var b strings.Builder
	for _, r := range s {
		if r >= '0' && r <= '9' {
			continue
		}
		b.WriteRune(r)
	}
	out := b.String()
	if len(out) > 80 {
		out = out[:80]
	}
	return out
}

// diffSegments names the kinds of the body segments that differ.
func diffSegments(a, b string) []string {
	pa, pb := strings.Split(a, ";"), strings.Split(b, ";")
	kinds := map[string]bool{}
	for i := 0; i < len(pa) || i < len(pb); i++ {
		x, y := "", ""
		if i < len(pa) {
			x = pa[i]
		}
		if i < len(pb) {
			y = pb[i]
		}
		if x == y {
			continue
		}
		lab := x
		if lab == "" {
			lab = y
		}
		lab, _, _ = strings.Cut(lab, "=")
		if _, k, ok := strings.Cut(lab, "."); ok {
			lab = k
		}
		if len(lab) > 40 {
			lab = "unparsable-segment"
		}
		kinds[lab] = true
	}
	var ks []string
	for k := range kinds {
		ks = append(ks, k)
	}
	sort.Strings(ks)
	return ks
}

var prop = &hx.Prop{
	ID: "C11", Gen: gen, Decode: decode, Focus: focus, Exec: exec, Shrink: shrink,
	Components: map[string]string{
		"interpreter (parser, nodes, contexts, superglobal nodes), std/net/http Server/Handler/middleware/onError/Request/Response": "real (instrumented copy of /repo)",
		"Go net/http ServeMux": "real",
		"annotation controllers (#[Controller]/#[GetMapping]/#[Middleware] classes in an application directory mounted with $server->boot())": "real: std/net/annotation, mount_routes.go, route_dispatch.go; the application's files are real files in the scratch tree",
		"TCP listener, http.Server, connections":          "simulated: each client is a task calling ServeMux.ServeHTTP with an in-memory request and a SimConn",
		"goroutine scheduling between in-flight requests": "simulated (seeded scheduler, statement-granular preemption, script-level gates)",
		"oracle": "the same server script on a second fresh VM serving the same requests strictly one at a time, twice (forward and reverse order; a difference between the two is reported as sequential order dependence), plus an absolute check that request data read alone carries the request's own id",
	},
}

func TestWorker(t *testing.T) { hx.Main(t, prop) }
