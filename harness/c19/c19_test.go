package c19

import (
	"encoding/json"
	"fmt"
	"sort"
	"strings"
	"testing"

	"github.com/php-any/origami/data"
	"github.com/php-any/origami/verifharness/hx"
	"github.com/php-any/origami/verifsim"
)

var focus = []string{"node/class_generic.go", "node/new.go", "node/binary_assign.go", "data/type_generic.go", "node/class.go", "std/spawn.go"}

// (String and Int: the same scalar types in another letter case, as a Java-minded author writes them)
var types = []string{"int", "string", "array", "U", "String", "Int"}

// cn: name of the non-generic class declared with type t (class names are case-insensitive, so the
// capitalised spellings need names of their own)
func cn(t string) string {
	if t == "String" || t == "Int" {
		return "Cap" + t
	}
	return t
}

var values = []string{"int", "string", "array", "U", "V", "float", "bool", "null", "numstr", "SubU", "zero", "emptystr", "DeepU"}

// (float, bool, null, a numeric string, an object of a subclass, 0 and "": the values at the edges of "is of type A")
var valueExpr = map[string]string{"int": "7", "string": `"s"`, "array": "[1]", "U": "new U()", "V": "new V()",
	"DeepU": "new D40()", "float": "1.5", "bool": "true", "null": "null", "numstr": `"7"`, "SubU": "new SubU()", "zero": "0", "emptystr": `""`}

// Op: instantiate a generic class (I) or write a typed member of a live instance (W).
type Op struct {
	K       string   `json:"k"`               // I | W
	Inst    int      `json:"inst"`            // instance number
	Class   string   `json:"class,omitempty"` // G1 (one parameter) | G2 (two parameters)
	Args    []string `json:"args,omitempty"`
	Mem     string   `json:"mem,omitempty"` // p (G1 property) | set (G1 method parameter) | a | b (G2 properties)
	Val     string   `json:"val,omitempty"`
	Co      int      `json:"co,omitempty"` // coroutine that executes the op (concurrent mode)
	Factory bool     `json:"factory,omitempty"`
	// Rep > 1: the write is executed Rep times in a loop (one source location executed hundreds of times:
	// whatever the interpreter remembers per location only after it became "hot"); the last result counts
	Rep int `json:"rep,omitempty"`
	// Via: how the write reaches the instance: "" directly, "clone" through a fresh `clone` of it, "clone2" through a
	// clone of a clone, "arr" through an array element holding it. A copy of an instance is still an object of that
	// instantiation: it accepts what the instance accepts.
	Via string `json:"via,omitempty"`
	// ByArg (members xp, xpv): the write is made by a method running on ANOTHER object, a fresh G1<ByArg>, which
	// assigns to the member of this instance: what is accepted is still decided by this instance's arguments
	ByArg string `json:"by_arg,omitempty"`
}

type W struct {
	Ops  []Op `json:"ops"`
	Conc int  `json:"coroutines,omitempty"` // 0: one sequential history; 2-3: ops split over spawned coroutines
}

func gen(r *verifsim.Rng, tier string) (any, hx.Sched) {
	w := &W{}
	ni := 1 + r.Intn(4)
	if tier == "thorough" {
		ni = 1 + r.Intn(6)
	}
	if r.Intn(3) == 0 {
		w.Conc = 2 + r.Intn(2)
	}
	var insts []Op
	nops := ni + 2 + r.Intn(10)
	if r.Intn(20) == 0 {
		// many DISTINCT instantiations of one class (tables of instantiations that fill up, wrap around
		// or get evicted), then fresh `new` sites for the earliest argument lists and writes to all of them
		basic := []string{"int", "string", "array", "U"}
		var lists [][]string
		for _, a := range basic {
			for _, b := range basic {
				for _, c := range basic {
					lists = append(lists, []string{a, a, b, c})
				}
			}
		}
		for i := len(lists) - 1; i > 0; i-- {
			j := r.Intn(i + 1)
			lists[i], lists[j] = lists[j], lists[i]
		}
		n := verifsim.Pick(r, []int{20, 34, 40, 64})
		for i := 0; i < n; i++ {
			w.Ops = append(w.Ops, Op{K: "I", Inst: i, Class: "G4", Args: lists[i]})
		}
		for i := 0; i < 4; i++ { // the earliest lists again, at new source locations
			w.Ops = append(w.Ops, Op{K: "I", Inst: n + i, Class: "G4", Args: lists[i]})
		}
		for i := 0; i < 10; i++ {
			inst := verifsim.Pick(r, []int{r.Intn(4), n + r.Intn(4), r.Intn(n)})
			w.Ops = append(w.Ops, Op{K: "W", Inst: inst, Val: verifsim.Pick(r, []string{"int", "string", "array", "U", "V"}), Mem: verifsim.Pick(r, []string{"a", "b", "c", "d"})})
		}
		s := hx.SwarmSched(r, focus)
		s.MeanGap = verifsim.Pick(r, []int64{300, 1000, 10000})
		s.MaxSteps = 4000000
		s.MapMode = verifsim.MapSorted
		return w, s
	}
	// family runs: every instantiation is of ONE generic class with arguments from
	// a two-type subset, so that instantiations equal or differ in single positions
	family := ""
	var sub []string
	if r.Intn(4) == 0 {
		family = verifsim.Pick(r, []string{"G1", "G2", "G2", "G4", "G4", "G4", "G5", "G5"})
		if family == "G5" {
			sub = []string{verifsim.Pick(r, []string{"U", "SubU"}), "V"}
		}
		p := r.Perm(len(types))
		sub = []string{types[p[0]], types[p[1]]}
		ni = 3 + r.Intn(4)
		nops = ni + 3 + r.Intn(10)
	}
	for len(w.Ops) < nops {
		if len(insts) < ni && (len(insts) == 0 || r.Intn(3) == 0) {
			op := Op{K: "I", Inst: len(insts), Class: "G1", Args: []string{verifsim.Pick(r, types)}}
			switch r.Intn(7) {
			case 0, 1:
				op.Class = "G2"
				op.Args = []string{verifsim.Pick(r, types), verifsim.Pick(r, types)}
			case 2:
				op.Class = "G3" // extends a plain class, has a defaulted property next to the typed one
			case 4:
				op.Class = "G5" // creates `new T()` inside its methods
				op.Args = []string{verifsim.Pick(r, []string{"U", "V", "U", "V", "int", "SubU"})}
			case 3:
				if r.Intn(2) == 0 {
					op.Class = "G4" // four type parameters; instantiations often differ only in the last one
					a := verifsim.Pick(r, types)
					op.Args = []string{a, a, a, verifsim.Pick(r, types)}
					if r.Intn(3) == 0 {
						op.Args = []string{verifsim.Pick(r, types), verifsim.Pick(r, types), verifsim.Pick(r, types), verifsim.Pick(r, types)}
					}
				}
			}
			if family != "" {
				op.Class = family
				n := map[string]int{"G1": 1, "G2": 2, "G4": 4, "G5": 1}[family]
				op.Args = nil
				first := verifsim.Pick(r, sub)
				for i := 0; i < n; i++ {
					a := first
					if i == n-1 || r.Intn(4) == 0 {
						a = verifsim.Pick(r, sub)
					}
					op.Args = append(op.Args, a)
				}
			}
			// Factory: the instance comes from a `new` expression inside a function
			// (one shared `new` site per class and type argument) instead of an inline one
			op.Factory = r.Intn(3) == 0
			insts = append(insts, op)
			w.Ops = append(w.Ops, op)
			continue
		}
		in := insts[r.Intn(len(insts))]
		op := Op{K: "W", Inst: in.Inst, Val: verifsim.Pick(r, values)}
		if in.Class == "G1" {
			op.Mem = verifsim.Pick(r, []string{"p", "p", "p", "set", "put", "put", "q", "u", "ctor", "pv", "pw", "tpv", "xp", "xpv"}) // q: declared ?T, u: T|null, ctor: new G6<T>(value), a promoted constructor parameter
		} else if in.Class == "G3" {
			op.Mem = verifsim.Pick(r, []string{"p", "put"})
		} else if in.Class == "G5" {
			op.Mem = verifsim.Pick(r, []string{"p", "fill", "fill", "made"})
		} else if in.Class == "G4" {
			op.Mem = verifsim.Pick(r, []string{"a", "b", "c", "d", "d"})
		} else {
			op.Mem = verifsim.Pick(r, []string{"a", "b", "kw", "kwn"}) // kw, kwn: members whose type names BOTH parameters
			if basicType(in.Args[0]) && basicType(in.Args[1]) && r.Intn(4) == 0 {
				// cna / cnb: a G8 with the SAME type arguments constructed with NAMED arguments in the order (w, k);
				// the tested value goes to k (cna) or to w (cnb), the other parameter gets a value of its own type
				op.Mem = verifsim.Pick(r, []string{"cna", "cnb"})
			}
		}
		if op.Mem == "ctor" || op.Mem == "cna" || op.Mem == "cnb" {
			op.Args = in.Args
		}
		if op.Mem == "xp" || op.Mem == "xpv" {
			op.ByArg = verifsim.Pick(r, []string{"int", "string", "array", "U"})
		}
		if op.Mem != "ctor" && op.Mem != "cna" && op.Mem != "cnb" && op.Mem != "xp" && op.Mem != "xpv" && r.Intn(12) == 0 {
			op.Rep = verifsim.Pick(r, []int{40, 300, 300, 700})
		}
		if op.Mem != "ctor" && op.Mem != "cna" && op.Mem != "cnb" && op.Mem != "xp" && op.Mem != "xpv" && r.Intn(6) == 0 {
			op.Via = verifsim.Pick(r, []string{"clone", "clone", "clone2", "arr"})
		}
		w.Ops = append(w.Ops, op)
	}
	if w.Conc > 0 {
		// every instance lives in one coroutine (its creation and its writes keep their order)
		co := map[int]int{}
		for i := range w.Ops {
			if _, ok := co[w.Ops[i].Inst]; !ok {
				co[w.Ops[i].Inst] = r.Intn(w.Conc)
			}
			w.Ops[i].Co = co[w.Ops[i].Inst]
		}
	}
	s := hx.SwarmSched(r, focus)
	s.MeanGap = verifsim.Pick(r, []int64{30, 100, 300, 1000, 10000})
	s.FocusWeight = verifsim.Pick(r, []int32{1, 10, 100, 1000})
	s.MaxSteps = 2000000
	// Go randomises map iteration: a third of the runs iterate maps in a seeded
	// pseudo-random order per loop (MapPerm), so that logic which silently relies on
	// an order (cache keys built by ranging over the type-argument map, say) meets all orders
	s.MapMode = verifsim.Pick(r, []int{verifsim.MapSorted, verifsim.MapSorted, verifsim.MapPerm})
	s.MapSeed = r.Uint64()
	return w, s
}

func decode(raw json.RawMessage) (any, error) {
	w := &W{}
	return w, json.Unmarshal(raw, w)
}

func shrink(x any) []any {
	w := x.(*W)
	var out []any
	cp := func() *W {
		b, _ := json.Marshal(w)
		c := &W{}
		json.Unmarshal(b, c)
		return c
	}
	// drop an instance with all its writes
	seen := map[int]bool{}
	for _, op := range w.Ops {
		if op.K == "I" && !seen[op.Inst] {
			seen[op.Inst] = true
			c := cp()
			var ops []Op
			for _, o := range c.Ops {
				if o.Inst != op.Inst {
					ops = append(ops, o)
				}
			}
			c.Ops = ops
			if len(ops) > 0 {
				out = append(out, c)
			}
		}
	}
	for i, op := range w.Ops {
		if op.K == "W" {
			c := cp()
			c.Ops = append(c.Ops[:i], c.Ops[i+1:]...)
			out = append(out, c)
		}
	}
	if w.Conc > 0 {
		c := cp()
		c.Conc = 0
		out = append(out, c)
	}
	for i, op := range w.Ops {
		if op.Via == "clone2" {
			c := cp()
			c.Ops[i].Via = "clone"
			out = append(out, c)
		}
	}
	return out
}

const prelude = `<?php
class U { public $n = 1; }
class V { public $n = 2; }
class SubU extends U { public $m = 3; }
class D1 extends U { }
class D2 extends D1 { }
class D3 extends D2 { }
class D4 extends D3 { }
class D5 extends D4 { }
class D6 extends D5 { }
class D7 extends D6 { }
class D8 extends D7 { }
class D9 extends D8 { }
class D10 extends D9 { }
class D11 extends D10 { }
class D12 extends D11 { }
class D13 extends D12 { }
class D14 extends D13 { }
class D15 extends D14 { }
class D16 extends D15 { }
class D17 extends D16 { }
class D18 extends D17 { }
class D19 extends D18 { }
class D20 extends D19 { }
class D21 extends D20 { }
class D22 extends D21 { }
class D23 extends D22 { }
class D24 extends D23 { }
class D25 extends D24 { }
class D26 extends D25 { }
class D27 extends D26 { }
class D28 extends D27 { }
class D29 extends D28 { }
class D30 extends D29 { }
class D31 extends D30 { }
class D32 extends D31 { }
class D33 extends D32 { }
class D34 extends D33 { }
class D35 extends D34 { }
class D36 extends D35 { }
class D37 extends D36 { }
class D38 extends D37 { }
class D39 extends D38 { }
class D40 extends D39 { }
class G5<T> {
  public T $p;
  public function make() { return new T(); }
  public function fill() { $this->p = new T(); return 1; }
}
class G1<T> {
  public T $p;
  private T $pv;
  protected T $pw;
  public function pokePv($other, $v) { $other->pv = $v; return 1; }
  public function pokePw($other, $v) { $other->pw = $v; return 1; }
  public function pokeP($other, $v) { $other->p = $v; return 1; }
  public function setPv($v) { $this->pv = $v; return 1; }
  public ?T $q = null;
  public T|null $u = null;
  public function set(T $v) { return 1; }
  public function put($v) { $this->p = $v; return 1; }
}
class Base3 { public $inherited = "b"; public function who() { return "base3"; } }
class G3<T> extends Base3 {
  public $plain = 5;
  public T $p;
  public function put($v) { $this->p = $v; return 1; }
}
class G6<T> {
  public function __construct(public T $x) { }
}
class G8<K, W> {
  public function __construct(public K $k, public W $w) { }
}
class C6int { public function __construct(public int $x) { } }
class C6string { public function __construct(public string $x) { } }
class C6array { public function __construct(public array $x) { } }
class C6U { public function __construct(public U $x) { } }
class G2<K, W> {
  public K $a;
  public W $b;
  public K|W $kw;
  public K|W|null $kwn = null;
}
class G4<A, B, C, D> {
  public A $a;
  public B $b;
  public C $c;
  public D $d;
}
class CCapString { private String $pv; protected String $pw; public function pokePv($other, $v) { $other->pv = $v; return 1; } public function pokePw($other, $v) { $other->pw = $v; return 1; } public function setPv($v) { $this->pv = $v; return 1; } public String $p; public ?String $q = null; public String|null $u = null; public function set(String $v) { return 1; } }
class CCapInt { private Int $pv; protected Int $pw; public function pokePv($other, $v) { $other->pv = $v; return 1; } public function pokePw($other, $v) { $other->pw = $v; return 1; } public function setPv($v) { $this->pv = $v; return 1; } public Int $p; public ?Int $q = null; public Int|null $u = null; public function set(Int $v) { return 1; } }
class C6CapString { public function __construct(public String $x) { } }
class C6CapInt { public function __construct(public Int $x) { } }
class Cint { private int $pv; protected int $pw; public function pokePv($other, $v) { $other->pv = $v; return 1; } public function pokePw($other, $v) { $other->pw = $v; return 1; } public function setPv($v) { $this->pv = $v; return 1; } public int $p; public ?int $q = null; public int|null $u = null; public function set(int $v) { return 1; } }
class Cstring { private string $pv; protected string $pw; public function pokePv($other, $v) { $other->pv = $v; return 1; } public function pokePw($other, $v) { $other->pw = $v; return 1; } public function setPv($v) { $this->pv = $v; return 1; } public string $p; public ?string $q = null; public string|null $u = null; public function set(string $v) { return 1; } }
class Carray { private array $pv; protected array $pw; public function pokePv($other, $v) { $other->pv = $v; return 1; } public function pokePw($other, $v) { $other->pw = $v; return 1; } public function setPv($v) { $this->pv = $v; return 1; } public array $p; public ?array $q = null; public array|null $u = null; public function set(array $v) { return 1; } }
class CU { private U $pv; protected U $pw; public function pokePv($other, $v) { $other->pv = $v; return 1; } public function pokePw($other, $v) { $other->pw = $v; return 1; } public function setPv($v) { $this->pv = $v; return 1; } public U $p; public ?U $q = null; public U|null $u = null; public function set(U $v) { return 1; } }
function wp($o, $v) { try { $o->p = $v; return "A"; } catch (\Throwable $e) { return "R"; } }
function wq($o, $v) { try { $o->q = $v; return "A"; } catch (\Throwable $e) { return "R"; } }
function wu($o, $v) { try { $o->u = $v; return "A"; } catch (\Throwable $e) { return "R"; } }
function wkw($o, $v) { try { $o->kw = $v; return "A"; } catch (\Throwable $e) { return "R"; } }
function wkwn($o, $v) { try { $o->kwn = $v; return "A"; } catch (\Throwable $e) { return "R"; } }
function wa($o, $v) { try { $o->a = $v; return "A"; } catch (\Throwable $e) { return "R"; } }
function wb($o, $v) { try { $o->b = $v; return "A"; } catch (\Throwable $e) { return "R"; } }
function wc($o, $v) { try { $o->c = $v; return "A"; } catch (\Throwable $e) { return "R"; } }
function wd($o, $v) { try { $o->d = $v; return "A"; } catch (\Throwable $e) { return "R"; } }
function wpv($o, $v) { try { $o->pokePv($o, $v); return "A"; } catch (\Throwable $e) { return "R"; } }
function wpw($o, $v) { try { $o->pokePw($o, $v); return "A"; } catch (\Throwable $e) { return "R"; } }
function wtpv($o, $v) { try { $o->setPv($v); return "A"; } catch (\Throwable $e) { return "R"; } }
function wxp($by, $o, $v) { try { $by->pokeP($o, $v); return "A"; } catch (\Throwable $e) { return "R"; } }
function wxpv($by, $o, $v) { try { $by->pokePv($o, $v); return "A"; } catch (\Throwable $e) { return "R"; } }
function wset($o, $v) { try { $o->set($v); return "A"; } catch (\Throwable $e) { return "R"; } }
function wput($o, $v) { try { $o->put($v); return "A"; } catch (\Throwable $e) { return "R"; } }
function wfill($o, $v) { try { $o->fill(); return "A:" . get_class($o->p); } catch (\Throwable $e) { return "R"; } }
function wmade($o, $v) { try { $m = $o->make(); $o->p = $m; return "A:" . get_class($m); } catch (\Throwable $e) { return "R"; } }
function mkG1int() { return new G1<int>(); }
function mkG1string() { return new G1<string>(); }
function mkG1array() { return new G1<array>(); }
function mkG1U() { return new G1<U>(); }
function mkG3int() { return new G3<int>(); }
function mkG3string() { return new G3<string>(); }
function mkG3array() { return new G3<array>(); }
function mkG3U() { return new G3<U>(); }
`

func renderOp(op Op, idx int) string {
	if op.K == "I" {
		if op.Factory && (op.Class == "G1" || op.Class == "G3") && cn(op.Args[0]) == op.Args[0] {
			return fmt.Sprintf("$o%d = mk%s%s();\n", op.Inst, op.Class, op.Args[0])
		}
		return fmt.Sprintf("$o%d = new %s<%s>();\n", op.Inst, op.Class, strings.Join(op.Args, ", "))
	}
	if op.Mem == "ctor" {
		// constructs a G6 with the SAME type arguments as the instance, passing the value to a promoted parameter
		return fmt.Sprintf("__rec(\"w%d\", (function() { try { $x = new G6<%s>(%s); return \"A\"; } catch (\\Throwable $e) { return \"R\"; } })());\n", idx, strings.Join(op.Args, ", "), valueExpr[op.Val])
	}
	if op.Mem == "xp" || op.Mem == "xpv" {
		return fmt.Sprintf("__rec(\"w%d\", w%s(new G1<%s>(), $o%d, %s));\n", idx, op.Mem, op.ByArg, op.Inst, valueExpr[op.Val])
	}
	if op.Mem == "cna" || op.Mem == "cnb" {
		kv, wv := valueExpr[op.Val], valueExpr[op.Args[1]]
		if op.Mem == "cnb" {
			kv, wv = valueExpr[op.Args[0]], valueExpr[op.Val]
		}
		return fmt.Sprintf("__rec(\"w%d\", (function() { try { $x = new G8<%s>(w: %s, k: %s); return \"A\"; } catch (\\Throwable $e) { return \"R\"; } })());\n", idx, strings.Join(op.Args, ", "), wv, kv)
	}
	fn := map[string]string{"p": "wp", "q": "wq", "u": "wu", "kw": "wkw", "kwn": "wkwn", "a": "wa", "b": "wb", "set": "wset", "put": "wput", "c": "wc", "d": "wd", "fill": "wfill", "made": "wmade", "pv": "wpv", "pw": "wpw", "tpv": "wtpv"}[op.Mem]
	target := fmt.Sprintf("$o%d", op.Inst)
	pre := ""
	switch op.Via {
	case "clone":
		pre = fmt.Sprintf("$via%d = clone $o%d;\n", idx, op.Inst)
		target = fmt.Sprintf("$via%d", idx)
	case "clone2":
		pre = fmt.Sprintf("$via%da = clone $o%d;\n$via%d = clone $via%da;\n", idx, op.Inst, idx, idx)
		target = fmt.Sprintf("$via%d", idx)
	case "arr":
		pre = fmt.Sprintf("$via%d = [\"k\" => $o%d];\n", idx, op.Inst)
		target = fmt.Sprintf("$via%d[\"k\"]", idx)
	}
	if op.Rep > 1 {
		return pre + fmt.Sprintf("for ($rep = 0; $rep < %d; $rep++) { $last = %s(%s, %s); }\n__rec(\"w%d\", $last);\n", op.Rep, fn, target, valueExpr[op.Val], idx)
	}
	return pre + fmt.Sprintf("__rec(\"w%d\", %s(%s, %s));\n", idx, fn, target, valueExpr[op.Val])
}

// concreteTable: what a NON-generic class with the same declared type accepts.
func concreteScript() string {
	var b strings.Builder
	b.WriteString(prelude)
	for _, t := range types {
		for _, v := range values {
			fmt.Fprintf(&b, "__rec(\"c.p.%s.%s\", wp(new C%s(), %s));\n", t, v, cn(t), valueExpr[v])
			fmt.Fprintf(&b, "__rec(\"c.set.%s.%s\", wset(new C%s(), %s));\n", t, v, cn(t), valueExpr[v])
			fmt.Fprintf(&b, "__rec(\"c.q.%s.%s\", wq(new C%s(), %s));\n", t, v, cn(t), valueExpr[v])
			fmt.Fprintf(&b, "__rec(\"c.u.%s.%s\", wu(new C%s(), %s));\n", t, v, cn(t), valueExpr[v])
			fmt.Fprintf(&b, "__rec(\"c.pv.%s.%s\", wpv(new C%s(), %s));\n", t, v, cn(t), valueExpr[v])
			fmt.Fprintf(&b, "__rec(\"c.pw.%s.%s\", wpw(new C%s(), %s));\n", t, v, cn(t), valueExpr[v])
			fmt.Fprintf(&b, "__rec(\"c.tpv.%s.%s\", wtpv(new C%s(), %s));\n", t, v, cn(t), valueExpr[v])
			fmt.Fprintf(&b, "__rec(\"c.ctor.%s.%s\", (function() { try { $x = new C6%s(%s); return \"A\"; } catch (\\Throwable $e) { return \"R\"; } })());\n", t, v, cn(t), valueExpr[v])
		}
	}
	return b.String()
}

func script(w *W, onlyInst int) string {
	var b strings.Builder
	b.WriteString(prelude)
	if w.Conc == 0 || onlyInst >= 0 {
		for i, op := range w.Ops {
			if onlyInst >= 0 && op.Inst != onlyInst {
				continue
			}
			b.WriteString(renderOp(op, i))
		}
		return b.String()
	}
	for c := 0; c < w.Conc; c++ {
		b.WriteString("spawn(function() {\n")
		for i, op := range w.Ops {
			if op.Co == c {
				b.WriteString("  " + renderOp(op, i))
			}
		}
		b.WriteString("});\n")
	}
	return b.String()
}

// runScript executes src on a fresh VM (inside a simulated run when sched != nil).
func runScript(t *testing.T, src string, s *hx.Sched) (recs map[string]string, fail string, res *verifsim.Result) {
	recs = map[string]string{}
	var env *hx.Env
	run := func() {
		_, _, ctl := env.Run(src, "/verif/c19.php")
		if ctl != nil {
			fail = hx.CtlStr(ctl)
		}
	}
	if s == nil {
		// the reference runs (an instance alone in a fresh VM, the non-generic classes) are the only task of a
		// simulation of their own: the seams (map order, sync.Pool, select, rand) are deterministic for them too
		hx.RunBubble(t, verifsim.Config{MeanGap: 1 << 30, MaxSteps: 1000000, MapMode: verifsim.MapSorted}, func(sim *verifsim.Sim) {
			env = hx.NewEnv()
			env.Capture()
			sim.Spawn("solo", run)
		})
		data.ResetOutputWriter()
	} else {
		res = hx.RunBubble(t, s.Config(0), func(sim *verifsim.Sim) {
			env = hx.NewEnv()
			env.Capture()
			sim.Spawn("main", run)
		})
		data.ResetOutputWriter()
	}
	for _, r := range env.Recs {
		recs[r.Tag] = r.Val
	}
	if fail == "" && len(env.Throws) > 0 {
		fail = env.Throws[0]
	}
	return recs, fail, res
}

var concrete map[string]string

func exec(t *testing.T, x any, s hx.Sched) *hx.Outcome {
	w := x.(*W)
	o := &hx.Outcome{}
	if concrete == nil {
		c, fail, _ := runScript(t, concreteScript(), nil)
		if fail != "" {
			o.Violate("C19/harness-setup", "concrete-class table script failed: "+fail)
			return o
		}
		concrete = c
	}
	src := script(w, -1)
	got, fail, res := runScript(t, src, &s)
	o.Res = res
	var hs []string
	for k, v := range got {
		hs = append(hs, k+"="+v)
	}
	sort.Strings(hs)
	o.Hash = verifsim.Mix(hx.HashResult(res), hx.HashStrings(hs...))
	o.NonTrivial = true
	o.Sample = map[string]any{"workload": w, "script": src, "results": hs}
	for _, p := range res.Panics {
		o.Violate(hx.PanicSig("C19", p), "task panicked: "+p.Value)
	}
	if fail != "" {
		o.Violate("C19/script-failed", "history script failed: "+first(fail)+" script: "+src)
		return o
	}
	if res.Outcome != verifsim.OutDone {
		if res.Outcome == verifsim.OutStepLimit {
			o.Inconclusive++
		} else {
			o.Violate("C19/deadlock", fmt.Sprintf("history did not finish: %s %v", res.Outcome, res.Blocked))
		}
		return o
	}
	// instances
	inst := map[int]Op{}
	var order []int
	for _, op := range w.Ops {
		if op.K == "I" {
			inst[op.Inst] = op
			order = append(order, op.Inst)
		}
	}
	distinctArgs := map[string]bool{}
	for _, id := range order {
		distinctArgs[inst[id].Class+"<"+strings.Join(inst[id].Args, ",")+">"] = true
	}
	if len(distinctArgs) >= 2 {
		o.Probe("generic_class_instantiated_with_2_or_more_argument_tuples", 1)
	}
	for _, id := range order {
		in := inst[id]
		// oracle 1 (independence): same instance, same writes, alone on a fresh VM
		solo, sfail, _ := runScript(t, script(w, id), nil)
		if sfail != "" {
			o.Violate("C19/solo-failed", fmt.Sprintf("instance %s<%s> alone fails: %s", in.Class, strings.Join(in.Args, ","), first(sfail)))
			continue
		}
		for i, op := range w.Ops {
			if op.K != "W" || op.Inst != id {
				continue
			}
			key := fmt.Sprintf("w%d", i)
			h, sOK := got[key], solo[key]
			targ := in.Args[0]
			switch op.Mem {
			case "b", "cnb":
				targ = in.Args[1]
			case "c":
				targ = in.Args[2]
			case "d":
				targ = in.Args[3]
			}
			desc := fmt.Sprintf("%s<%s> member %s := %s value", in.Class, strings.Join(in.Args, ","), op.Mem, op.Val)
			mk := memKind(op.Mem)
			if op.Via != "" {
				o.Probe("write_through_a_clone_or_array_copy_of_the_instance", 1)
				desc += " (written through " + map[string]string{"clone": "a clone of the instance", "clone2": "a clone of a clone of the instance", "arr": "an array element holding the instance"}[op.Via] + ")"
				mk += "-via-" + op.Via
			}
			if h != sOK {
				mode := "sequential"
				if w.Conc > 0 {
					mode = "concurrent"
				}
				o.Violate(fmt.Sprintf("C19/history-dependent/%s/%s", mk, mode),
					fmt.Sprintf("%s is %s in this history but %s when the instance is the only instantiation in a fresh VM; history: %s", desc, ar(h), ar(sOK), histStr(w)))
			}
			// oracle 2 (own arguments): differential against a non-generic class declared with the concrete type
			ckey := fmt.Sprintf("c.%s.%s.%s", map[bool]string{true: "set", false: "p"}[op.Mem == "set"], targ, op.Val) // put() stores into p
			if op.Mem == "q" || op.Mem == "u" || op.Mem == "ctor" || op.Mem == "pv" || op.Mem == "pw" || op.Mem == "tpv" {
				ckey = fmt.Sprintf("c.%s.%s.%s", op.Mem, targ, op.Val)
			}
			if op.Mem == "fill" || op.Mem == "made" || op.Mem == "kw" || op.Mem == "kwn" || op.Mem == "cna" || op.Mem == "cnb" || op.Mem == "xp" || op.Mem == "xpv" || cn(targ) != targ {
				// (capitalised scalar names: origami reads `String` as string in a property declaration but as
				// a class named String in `?String`, in parameters and in type arguments — C07's subject; only the
				// history oracle is applied to them)
				ckey = "" // what `new T()` builds has no non-generic counterpart; the solo oracle covers it
			}
			// oracle 3 (own arguments, absolute): origami's typed members are strict — a value is accepted iff it is
			// of the declared type (an object of a subclass included), null iff the member is declared nullable.
			// Needed next to the differential oracle: a fault in type enforcement as such moves both sides of that one.
			if want := absolute(in, op); want != "" && sOK != want {
				o.Violate(fmt.Sprintf("C19/own-argument-not-enforced/%s/%s-gets-%s", mk, targ, op.Val),
					fmt.Sprintf("alone in a fresh VM, %s is %s, but a member declared with type argument %s must have it %s", desc, ar(sOK), targ, ar(want)))
			}
			if want, ok := concrete[ckey]; ok && sOK != want {
				o.Violate(fmt.Sprintf("C19/own-argument-not-enforced/%s/%s-gets-%s", mk, targ, op.Val),
					fmt.Sprintf("alone in a fresh VM, %s is %s, but a non-generic class whose member is declared %s has it %s", desc, ar(sOK), targ, ar(want)))
			}
		}
	}
	return o
}

func basicType(t string) bool { return t == "int" || t == "string" || t == "array" || t == "U" }

// isOf: is the generated value kind of the type named t (int, string, array, U)?
func isOf(t, val string) bool {
	switch t {
	case "int":
		return val == "int" || val == "zero"
	case "string":
		return val == "string" || val == "numstr" || val == "emptystr"
	case "array":
		return val == "array"
	case "U":
		return val == "U" || val == "SubU" || val == "DeepU" // (DeepU: an object 40 `extends` levels below U)
	case "V":
		return val == "V"
	case "SubU":
		return val == "SubU"
	}
	return false
}

// absolute: "A"/"R" expected for a write from the instance's own type arguments; "" where the model is silent
// (method parameters are not enforced by origami at all; capitalised scalar names; what `new T()` builds).
func absolute(in Op, op Op) string {
	var ts []string
	nullable := false
	switch op.Mem {
	case "p", "put", "pv", "pw", "tpv", "ctor", "a", "cna", "xp", "xpv":
		ts = []string{in.Args[0]}
	case "q", "u":
		ts, nullable = []string{in.Args[0]}, true
	case "b", "cnb":
		ts = []string{in.Args[1]}
	case "c":
		ts = []string{in.Args[2]}
	case "d":
		ts = []string{in.Args[3]}
	case "kw":
		ts = []string{in.Args[0], in.Args[1]}
	case "kwn":
		ts, nullable = []string{in.Args[0], in.Args[1]}, true
	default:
		return ""
	}
	for _, t := range ts {
		if cn(t) != t {
			return ""
		}
	}
	if op.Val == "null" && (op.Mem == "ctor" || op.Mem == "cna" || op.Mem == "cnb") {
		return "" // a promoted constructor PARAMETER: origami lets null through every typed parameter, generic or not (C07's subject)
	}
	if op.Val == "null" {
		if nullable {
			return "A"
		}
		return "R"
	}
	for _, t := range ts {
		if isOf(t, op.Val) {
			return "A"
		}
	}
	return "R"
}

func memKind(m string) string {
	switch m {
	case "set":
		return "parameter"
	case "q":
		return "nullable-property"
	case "u":
		return "union-property"
	case "kw", "kwn":
		return "two-parameter-union-property"
	case "ctor":
		return "constructor-parameter"
	case "cna", "cnb":
		return "named-constructor-parameter"
	case "pv", "tpv":
		return "private-property"
	case "xp":
		return "property-written-by-another-instantiation"
	case "xpv":
		return "private-property-written-by-another-instantiation"
	case "pw":
		return "protected-property"
	}
	return "property"
}

func ar(s string) string {
	switch s {
	case "A":
		return "accepted"
	case "R":
		return "rejected"
	}
	if strings.HasPrefix(s, "A:") {
		return "accepted (object of class " + s[2:] + ")"
	}
	return "missing(" + s + ")"
}

func histStr(w *W) string {
	var parts []string
	for _, op := range w.Ops {
		if op.K == "I" {
			parts = append(parts, fmt.Sprintf("$o%d=new %s<%s>", op.Inst, op.Class, strings.Join(op.Args, ",")))
		} else {
			parts = append(parts, fmt.Sprintf("$o%d.%s:=%s%s", op.Inst, op.Mem, op.Val, map[bool]string{true: " via " + op.Via, false: ""}[op.Via != ""]))
		}
	}
	return strings.Join(parts, "; ")
}

func first(s string) string {
	if i := strings.IndexByte(s, '\n'); i >= 0 {
		s = s[:i]
	}
	if len(s) > 120 {
		s = s[:120]
	}
	return s
}

var prop = &hx.Prop{
	ID: "C19", Gen: gen, Decode: decode, Focus: focus, Exec: exec, Shrink: shrink,
	Components: map[string]string{
		"parser (generic class syntax), node.ClassGeneric / NewClassGenerated / typed property store / parameter checks, spawn": "real (instrumented copy of /repo)",
		"coroutine scheduling (concurrent mode)": "simulated (seeded scheduler, statement-granular preemption)",
		"oracles":                                "metamorphic: every instance's accept/reject vector in the history equals its vector when it is the only instantiation on a fresh VM; differential: equals what a non-generic class declared with the concrete type accepts",
	},
}

func TestWorker(t *testing.T) { hx.Main(t, prop) }
