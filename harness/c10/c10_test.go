package c10

import (
	"encoding/json"
	"fmt"
	"os"
	"path/filepath"
	"strings"
	"testing"
	"time"

	"github.com/anishathalye/porcupine"
	"github.com/php-any/origami/data"
	"github.com/php-any/origami/node"
	"github.com/php-any/origami/parser"
	"github.com/php-any/origami/runtime"
	"github.com/php-any/origami/std"
	"github.com/php-any/origami/std/php"
	"github.com/php-any/origami/verifharness/hx"
	"github.com/php-any/origami/verifsim"
)

var focus = []string{"runtime/vm.go", "runtime/vm_temp.go", "parser/class_path_manager.go", "runtime/autoload.go"}

// Op is one registry call. K: addclass addiface addfunc getclass getiface
// getfunc loadpkg setconst getconst global setfile getfile getorload allclasses allfuncs
type Op struct {
	K string `json:"k"`
	N string `json:"n"`
}

type W struct {
	Tasks [][]Op `json:"tasks"`
	// Preload: classes registered before the tasks start (tables that change strategy above some size)
	Preload int `json:"preload_classes,omitempty"`
}

// Gadget is a Go type registered as a script class through RegisterReflectClass.
type Gadget struct{ n int }

func (g *Gadget) Alpha() int        { return 1 }
func (g *Gadget) Beta() int         { return 2 }
func (g *Gadget) Gamma() string     { return "g" }
func (g *Gadget) Delta(x int) int   { return x }
func (g *Gadget) Epsilon() bool     { return true }
func (g *Gadget) Zeta(s string) int { return len(s) }
func (g *Gadget) Eta() int          { g.n++; return g.n }
func (g *Gadget) Theta() float64    { return 1.5 }

var gadgetMethods = []string{"Alpha", "Beta", "Gamma", "Delta", "Epsilon", "Zeta", "Eta", "Theta"}

var names = []string{"Alpha", "Beta", "Gamma", "Delta", "Eps", "Zeta"}

// autoloadable fixture classes: directly under the registered namespace and in
// (nested) sub-namespaces, whose tree nodes the class path manager creates
// lazily on first resolution
var loadable = []string{"fx\\La", "fx\\Lb", "fx\\Lc", "fx\\s1\\Da", "fx\\s2\\Db", "fx\\s1\\t\\Dc", "fx\\s3\\u\\Dd"}

func gen(r *verifsim.Rng, tier string) (any, hx.Sched) {
	w := &W{}
	nt := 2 + r.Intn(3)
	maxOps := 12
	if tier == "thorough" {
		nt = 2 + r.Intn(7)
		if r.Intn(8) == 0 {
			nt = 16
		}
		maxOps = verifsim.Pick(r, []int{12, 30, 60})
	}
	if r.Intn(12) == 0 {
		// bulk: hundreds of registrations with unique names (tables that grow,
		// fold or rehash only after a few hundred entries), each task also
		// looks up names it registered itself earlier
		nt = 2 + r.Intn(3)
		for t := 0; t < nt; t++ {
			n := verifsim.Pick(r, []int{120, 200, 330})
			var ops []Op
			for i := 0; i < n; i++ {
				kind := verifsim.Pick(r, []string{"addfunc", "addfunc", "addfunc", "addclass", "setconst"})
				name := fmt.Sprintf("bulk%d_%d", t, i)
				ops = append(ops, Op{kind, name})
				if i > 0 && r.Intn(2) == 0 {
					j := r.Intn(i) // something this task registered before
					prev := ops[0]
					c := 0
					for _, o := range ops {
						if strings.HasPrefix(o.K, "add") || o.K == "setconst" {
							if c == j {
								prev = o
								break
							}
							c++
						}
					}
					get := map[string]string{"addfunc": "getfunc", "addclass": "getclass", "setconst": "getconst"}[prev.K]
					ops = append(ops, Op{get, prev.N})
				}
			}
			w.Tasks = append(w.Tasks, ops)
		}
		s := hx.SwarmSched(r, focus)
		s.MeanGap = verifsim.Pick(r, []int64{10, 30, 100})
		s.FocusWeight = verifsim.Pick(r, []int32{10, 30, 100})
		s.MaxSteps = 1000000
		return w, s
	}
	if r.Intn(6) == 0 {
		w.Preload = verifsim.Pick(r, []int{150, 300, 1000, 5000})
	}
	pool := 1 + r.Intn(len(names)) // small pools collide more
	kinds := []string{"addclass", "addclass", "addiface", "addfunc", "addfunc", "getclass", "getclass", "getiface", "getfunc", "loadpkg",
		"setconst", "getconst", "global", "setfile", "getfile", "allclasses", "allfuncs", "getorload", "getorload",
		"getclass_ci", "getfunc_bs", "loadpkg_bs", "getconst_bs", "addns", "findfile", "regreflect", "newobj", "newobj",
		// definitions made the way request handlers make them: by parsing source on a parser clone
		// (registration at parse time), and through script builtins executed on the shared VM
		"pclass", "piface", "pfunc", "pclass_sf", "piface_sf", "sdefine", "sgetconst", "sclassexists", "sfuncexists", "sifaceexists",
		// a script requires a file (require_once) and uses what the file declares straight away
		"srequire", "srequire",
		// a script's top-level variables are registered as globals in one call (a file with many of them)
		"regglobals"}
	// swarm: disable a random subset of kinds
	var enabled []string
	for _, k := range kinds {
		if r.Intn(4) != 0 {
			enabled = append(enabled, k)
		}
	}
	if len(enabled) == 0 {
		enabled = kinds
	}
	// focused runs (one in twelve): a few kinds of ONE registry only, so that registrations and lookups of the same
	// few names meet often (with ~45 kinds enabled two operations on one name of one registry are rare)
	focusGlob := false
	switch r.Intn(36) {
	case 0:
		enabled, focusGlob = []string{"regglobals", "global", "global", "global"}, true
	case 1:
		enabled = []string{"addfunc", "pfunc", "getfunc", "getfunc_bs", "sfuncexists", "allfuncs"}
	case 2:
		enabled = []string{"addclass", "pclass", "pclass_sf", "piface_sf", "addiface", "getclass", "getclass_ci", "getiface", "loadpkg", "regreflect", "newobj"}
	}
	for t := 0; t < nt; t++ {
		n := 2 + r.Intn(maxOps-1)
		var ops []Op
		for i := 0; i < n; i++ {
			k := verifsim.Pick(r, enabled)
			name := names[r.Intn(pool)]
			if k == "getorload" || k == "findfile" {
				name = verifsim.Pick(r, loadable)
			}
			if k == "allclasses" || k == "allfuncs" {
				name = ""
			}
			if k == "srequire" {
				name = verifsim.Pick(r, []string{"Ra", "Rb"})
			}
			if k == "regglobals" {
				name = verifsim.Pick(r, []string{"8", "40", "40", "200"}) // how many variables the "file" has
			}
			if k == "global" && (focusGlob || r.Intn(2) == 0) {
				name = fmt.Sprintf("gv%d", r.Intn(6)) // one of the names such a file declares
			}
			ops = append(ops, Op{k, name})
		}
		w.Tasks = append(w.Tasks, ops)
	}
	s := hx.SwarmSched(r, focus)
	// preemptions are dense inside the registry code (focus files) and sparse in
	// the lexer/parser that an autoload runs through (millions of statements)
	s.MeanGap = verifsim.Pick(r, []int64{30, 100, 300, 1000})
	s.FocusWeight = verifsim.Pick(r, []int32{10, 30, 100, 300, 1000})
	s.MaxSteps = 1000000
	return w, s
}

func decode(raw json.RawMessage) (any, error) {
	w := &W{}
	return w, json.Unmarshal(raw, w)
}

func shrink(x any) []any {
	w := x.(*W)
	var out []any
	cp := func() *W {
		c := &W{}
		for _, t := range w.Tasks {
			c.Tasks = append(c.Tasks, append([]Op{}, t...))
		}
		return c
	}
	for i := range w.Tasks {
		if len(w.Tasks) > 2 {
			c := cp()
			c.Tasks = append(c.Tasks[:i], c.Tasks[i+1:]...)
			out = append(out, c)
		}
	}
	for i := range w.Tasks {
		n := len(w.Tasks[i])
		if n > 1 {
			c := cp()
			c.Tasks[i] = c.Tasks[i][:n/2]
			out = append(out, c)
			c = cp()
			c.Tasks[i] = c.Tasks[i][n/2:]
			out = append(out, c)
		}
		for j := 0; j < n && n > 1; j++ {
			c := cp()
			c.Tasks[i] = append(c.Tasks[i][:j], c.Tasks[i][j+1:]...)
			out = append(out, c)
		}
	}
	return out
}

var fixtureDir string

func fixture() string {
	if fixtureDir != "" {
		return fixtureDir
	}
	// fixed-width names: a path that is one character longer costs the lexer one more iteration, and a
	// task that lexes a script containing it would reach its preemption points elsewhere
	dir := filepath.Join(filepath.Dir(os.Args[0]), fmt.Sprintf("c10fx-%08d", os.Getpid()%100000000))
	if err := os.MkdirAll(dir, 0o755); err != nil {
		panic(err)
	}
	for _, full := range loadable {
		parts := strings.Split(full, "\\")
		n := parts[len(parts)-1]
		sub := filepath.Join(parts[1 : len(parts)-1]...)
		os.MkdirAll(filepath.Join(dir, sub), 0o755)
		ns := strings.Join(parts[:len(parts)-1], "\\")
		src := fmt.Sprintf("<?php\nnamespace %s;\nclass %s {\n  public $v = 1;\n  public function name() { return \"%s\"; }\n}\n", ns, n, n)
		os.WriteFile(filepath.Join(dir, sub, n+".php"), []byte(src), 0o644)
	}
	fixtureDir = dir
	return dir
}

var reqSeq int

// reqFixture writes the files that scripts require into a directory of their own for every case: the
// interpreter remembers required paths in a package-level table, and a path seen by an earlier case of
// this worker would make the case depend on the worker's history
func reqFixture() string {
	reqSeq++
	dir := filepath.Join(fixture(), fmt.Sprintf("req%08d", reqSeq))
	os.MkdirAll(dir, 0o755)
	for _, n := range []string{"Ra", "Rb"} {
		os.WriteFile(filepath.Join(dir, n+".php"), []byte(fmt.Sprintf("<?php\nclass Req%s {\n  public function name() { return \"%s\"; }\n}\nfunction req_%s() { return 1; }\n", n, n, strings.ToLower(n))), 0o644)
	}
	return dir
}

func exec(t *testing.T, x any, s hx.Sched) *hx.Outcome {
	w := x.(*W)
	o := &hx.Outcome{}
	p := parser.NewParser()
	vm := runtime.NewVM(p).(*runtime.VM)
	// script builtins (define, class_exists, ...) for the script-level operations
	std.Load(vm)
	php.Load(vm)
	// uncaught throws are noted per task (distinct slots, no synchronisation of the harness's own:
	// the race detector is an oracle here)
	thrown := make([]string, len(w.Tasks)+1)
	vm.SetThrowControl(func(acl data.Control) {
		ti := len(w.Tasks)
		fmt.Sscanf(verifsim.TaskName(), "T%d", &ti)
		if ti >= 0 && ti < len(thrown) {
			thrown[ti] = hx.CtlStr(acl)
		}
	})
	vm.AddNamespace("fx", fixture())
	h := hx.NewHist(len(w.Tasks))

	// every registrable object is created up front with a unique tag
	tagOf := map[any]string{}
	classes := map[string]data.ClassStmt{}
	ifaces := map[string]data.InterfaceStmt{}
	funcs := map[string]data.FuncStmt{}
	for ti, ops := range w.Tasks {
		for oi, op := range ops {
			id := fmt.Sprintf("t%d.%d", ti, oi)
			switch op.K {
			case "addclass":
				c := node.NewClassStatement(nil, op.N, "", nil, nil, map[string]data.Method{})
				classes[id] = c
				tagOf[c] = id
			case "addiface":
				c := node.NewInterfaceStatement(nil, op.N, nil, nil)
				ifaces[id] = c
				tagOf[c] = id
			case "addfunc":
				f := &hx.GoFunc{Name: op.N, Fn: func(ctx data.Context, a []data.Value) (data.GetValue, data.Control) { return nil, nil }}
				funcs[id] = f
				tagOf[f] = id
			}
		}
	}
	found := func(v any, ok bool) string {
		if !ok || v == nil {
			return "notfound"
		}
		if tag, ok := tagOf[v]; ok {
			return "found:" + tag
		}
		if _, ok := v.(*runtime.ReflectClass); ok {
			return "found:R" // a class registered through RegisterReflectClass (the VM creates the object)
		}
		if gf, ok := v.(node.GetFrom); ok && gf.GetFrom() != nil {
			// defined by parsing a snippet: the source path carries the tag
			if src := gf.GetFrom().GetSource(); strings.HasPrefix(src, "/c10/") {
				return "found:" + strings.TrimSuffix(strings.TrimPrefix(src, "/c10/"), ".php")
			}
		}
		return "found:?"
	}
	reqDir := ""
	for _, ops := range w.Tasks {
		for _, op := range ops {
			if op.K == "srequire" && reqDir == "" {
				reqDir = reqFixture()
				defer os.RemoveAll(reqDir)
			}
		}
	}
	for i := 0; i < w.Preload; i++ {
		vm.AddClass(node.NewClassStatement(nil, fmt.Sprintf("Preloaded%05d", i), "", nil, nil, map[string]data.Method{}))
	}
	// script-level operations report their result through __r(task, value)
	srets := make([]string, len(w.Tasks))
	vm.AddFunc(&hx.GoFunc{Name: "__r", Params: []string{"task", "val"}, Fn: func(ctx data.Context, a []data.Value) (data.GetValue, data.Control) {
		ti := 0
		fmt.Sscan(hx.ValStr(a[0]), &ti)
		srets[ti] = hx.ValStr(a[1])
		return data.NewNullValue(), nil
	}})
	// parseOn parses src on a clone of the VM's parser (definitions register at parse time) and runs it
	parseOn := func(ti int, src, path string) string {
		thrown[ti] = ""
		pp := p.Clone()
		prog, ctl := pp.ParseString(src, path)
		if ctl != nil {
			return "dup:" + firstLine(hx.CtlStr(ctl))
		}
		if _, ctl = prog.GetValue(vm.CreateContext(pp.GetVariables())); ctl != nil {
			return "dup:" + firstLine(hx.CtlStr(ctl))
		}
		if thrown[ti] != "" { // the program node hands uncaught throws to the VM's throw control
			return "dup:" + firstLine(thrown[ti])
		}
		return "ok"
	}
	cfg := s.Config(0)
	res := hx.RunSpin(cfg, func(sim *verifsim.Sim) {
		for ti, ops := range w.Tasks {
			ti, ops := ti, ops
			sim.Spawn(fmt.Sprintf("T%d", ti), func() {
				for oi, op := range ops {
					id := fmt.Sprintf("t%d.%d", ti, oi)
					i := h.Begin(ti, op.K, op.N+"#"+id)
					ret := ""
					switch op.K {
					case "addclass":
						ret = okDup(vm.AddClass(classes[id]))
					case "addiface":
						ret = okDup(vm.AddInterface(ifaces[id]))
					case "addfunc":
						ret = okDup(vm.AddFunc(funcs[id]))
					case "regreflect":
						ret = okDup(vm.RegisterReflectClass(op.N, &Gadget{}))
					case "newobj":
						// instantiate whatever class is registered under the name, the way `new X` does,
						// and look at the object: a reflect class must expose all of its methods
						c, ok := vm.GetClass(op.N)
						if !ok || c == nil {
							ret = "notfound"
							break
						}
						_, isReflect := c.(*runtime.ReflectClass)
						isStub := !isReflect // a stub registered through the Go API, or a class declared by a parsed snippet
						obj, ctl := c.GetValue(vm.CreateContext(nil))
						switch {
						case ctl != nil:
							ret = "error:" + firstLine(hx.CtlStr(ctl))
						case isStub:
							ret = "object"
						default:
							missing := 0
							if cv, ok := obj.(*data.ClassValue); ok {
								for _, mname := range gadgetMethods {
									if _, has := cv.GetMethod(mname); !has {
										missing++
									}
								}
							}
							ret = fmt.Sprintf("object:missing=%d", missing)
						}
					case "pclass", "piface", "pfunc":
						decl := map[string]string{"pclass": "class %s { }", "piface": "interface %s { }", "pfunc": "function %s() { return 1; }"}[op.K]
						ret = parseOn(ti, "<?php\n"+fmt.Sprintf(decl, op.N)+"\n", "/c10/"+id+".php")
						if strings.HasPrefix(ret, "dup:") {
							ret = "dup"
						}
					case "pclass_sf", "piface_sf":
						// the declaration comes from ONE file per name (whoever parses it): declaring a name again from
						// the file that declared it is a re-import and is skipped without an error, whatever the kind
						decl := map[string]string{"pclass_sf": "class %s { }", "piface_sf": "interface %s { }"}[op.K]
						ret = parseOn(ti, "<?php\n"+fmt.Sprintf(decl, op.N)+"\n", "/c10/sf-"+op.N+".php")
						if strings.HasPrefix(ret, "dup:") {
							ret = "dup"
						}
					case "sdefine":
						srets[ti] = ""
						r0 := parseOn(ti, fmt.Sprintf("<?php\ntry { define(\"%s\", \"%s\"); __r(%d, \"ok\"); } catch (\\Throwable $e) { __r(%d, \"dup\"); }\n", op.N, id, ti, ti), "/c10s/"+id+".php")
						ret = srets[ti]
						if r0 != "ok" || ret == "" {
							ret = "failed:" + r0
						}
					case "sgetconst":
						srets[ti] = ""
						// (existence only: a bare constant name is resolved when the snippet is parsed, not when it runs)
						r0 := parseOn(ti, fmt.Sprintf("<?php\n__r(%d, defined(\"%s\") ? \"exists\" : \"notfound\");\n", ti, op.N), "/c10s/"+id+".php")
						ret = srets[ti]
						if r0 != "ok" || ret == "" {
							ret = "failed:" + r0
						}
					case "srequire":
						srets[ti] = ""
						r0 := parseOn(ti, fmt.Sprintf("<?php\nrequire_once %q;\n__r(%d, (class_exists(\"Req%s\") && function_exists(\"req_%s\")) ? \"exists\" : \"notfound\");\n", filepath.Join(reqDir, op.N+".php"), ti, op.N, strings.ToLower(op.N)), "/c10s/"+id+".php")
						ret = srets[ti]
						if r0 != "ok" || ret == "" {
							ret = "failed:" + strings.ReplaceAll(r0, reqDir, "<req>")
						}
					case "sclassexists", "sfuncexists", "sifaceexists":
						fn := map[string]string{"sclassexists": "class_exists", "sfuncexists": "function_exists", "sifaceexists": "interface_exists"}[op.K]
						srets[ti] = ""
						r0 := parseOn(ti, fmt.Sprintf("<?php\n__r(%d, %s(\"%s\") ? \"exists\" : \"notfound\");\n", ti, fn, op.N), "/c10s/"+id+".php")
						ret = srets[ti]
						if r0 != "ok" || ret == "" {
							ret = "failed:" + r0
						}
					case "getclass":
						c, ok := vm.GetClass(op.N)
						ret = found(c, ok)
					case "getiface":
						c, ok := vm.GetInterface(op.N)
						ret = found(c, ok)
					case "getfunc":
						f, ok := vm.GetFunc(op.N)
						ret = found(f, ok)
					case "getclass_ci": // case-insensitive fallback
						c, ok := vm.GetClass(strings.ToLower(op.N))
						ret = found(c, ok)
					case "getfunc_bs": // leading-backslash path
						f, ok := vm.GetFunc("\\" + op.N)
						ret = found(f, ok)
					case "loadpkg_bs":
						v, ctl := vm.LoadPkg("\\" + op.N)
						if ctl != nil {
							ret = "notfound"
						} else {
							ret = found(v, v != nil)
						}
					case "getconst_bs":
						v, ok := vm.GetConstant("\\" + op.N)
						if ok {
							ret = "found:" + v.AsString()
						} else {
							ret = "notfound"
						}
					case "addns": // registering a namespace while others resolve classes
						vm.AddNamespace("ns"+op.N, fixture())
						ret = "ok"
					case "findfile":
						_, ok := p.GetClassPathManager().FindClassFile(op.N)
						ret = fmt.Sprint(ok)
					case "loadpkg":
						v, ctl := vm.LoadPkg(op.N)
						if ctl != nil {
							ret = "notfound"
						} else {
							ret = found(v, v != nil)
						}
					case "setconst":
						ret = okDup(vm.SetConstant(op.N, data.NewStringValue(id)))
					case "getconst":
						v, ok := vm.GetConstant(op.N)
						if ok {
							ret = "found:" + v.AsString()
						} else {
							ret = "notfound"
						}
					case "global":
						zv := vm.EnsureGlobalZVal(op.N)
						ret = fmt.Sprintf("ptr:%p", zv)
					case "regglobals":
						n := 0
						fmt.Sscan(op.N, &n)
						vars := make([]data.Variable, n)
						for j := range vars {
							vars[j] = node.NewVariable(nil, fmt.Sprintf("gv%d", j), j, nil)
						}
						gctx := vm.CreateContext(vars)
						vm.RegisterGlobalContext(vars, gctx)
						ret = "ok"
					case "setfile":
						vm.SetPhpFileCache("/fx/" + op.N + ".php")
						ret = "ok"
					case "getfile":
						ret = fmt.Sprint(vm.GetPhpFileCache("/fx/" + op.N + ".php"))
					case "getorload":
						c, ctl := vm.GetOrLoadClass(op.N)
						if ctl != nil || c == nil {
							ret = "error:" + firstLine(strings.ReplaceAll(hx.CtlStr(ctl), fixture(), "<fx>"))
						} else {
							ret = "found:" + c.GetName()
						}
					case "allclasses":
						var ns []string
						for _, c := range vm.AllClasses() {
							ns = append(ns, c.GetName())
						}
						ret = strings.Join(ns, ",")
					case "allfuncs":
						ret = fmt.Sprint(len(vm.AllFuncs()))
					}
					h.End(ti, i, ret)
				}
			})
		}
	})
	o.Res = res
	ops := h.All()
	hs := make([]string, len(ops))
	ptrNorm := map[string]string{}
	for i, p := range ops {
		// pointer values vary between processes: normalise to first-seen index
		if strings.HasPrefix(p.Ret, "ptr:") {
			if _, ok := ptrNorm[p.Ret]; !ok {
				ptrNorm[p.Ret] = fmt.Sprintf("ptr:z%d", len(ptrNorm))
			}
			ops[i].Ret = ptrNorm[p.Ret]
		}
		hs[i] = ops[i].String()
	}
	o.Hash = verifsim.Mix(hx.HashResult(res), hx.HashStrings(hs...))
	o.Sample = map[string]any{"workload": w, "history": hs, "outcome": res.Outcome, "trace_head": res.TraceStrings(40)}
	o.NonTrivial = res.FocusPreempts > 0
	for _, p := range res.Panics {
		o.Violate(hx.PanicSig("C10", p), fmt.Sprintf("task %s panicked: %s", p.Task, p.Value))
	}
	if len(res.Panics) > 0 || res.Outcome == verifsim.OutDiverged {
		return o
	}
	if res.Outcome == verifsim.OutDeadlock {
		var bl []string
		for _, b := range res.Blocked {
			bl = append(bl, fmt.Sprintf("%s %s at %s", b.Task, b.State, b.Site))
		}
		o.Violate("C10/deadlock", "registry calls deadlocked: "+strings.Join(bl, "; "))
		return o
	}
	if res.Outcome == verifsim.OutStepLimit {
		// budget exhaustion is not a verdict (an autoload parses a file under preemption)
		o.Inconclusive++
		return o
	}
	evaluate(o, ops)
	return o
}

func firstLine(s string) string {
	if i := strings.IndexByte(s, '\n'); i >= 0 {
		s = s[:i]
	}
	if len(s) > 80 {
		s = s[:80]
	}
	return s
}

func okDup(ctl data.Control) string {
	if ctl == nil {
		return "ok"
	}
	return "dup"
}

// ---- sequential-witness oracle ------------------------------------------------

type in struct {
	kind string
	id   string // unique tag of the object being registered
	name string
}

func baseKind(k string) string {
	switch k {
	case "getclass_ci":
		return "getclass"
	case "regreflect":
		return "addclass"
	case "getfunc_bs":
		return "getfunc"
	case "loadpkg_bs":
		return "loadpkg"
	case "getconst_bs":
		return "getconst"
	case "pclass":
		return "addclass"
	case "piface":
		return "addiface"
	case "pclass_sf":
		return "addclass_sf"
	case "piface_sf":
		return "addiface_sf"
	case "pfunc":
		return "addfunc"
	case "sdefine":
		return "setconst"
	}
	return k
}

func partitionKey(p hx.HOp) string {
	name, _, _ := strings.Cut(p.Arg, "#")
	switch baseKind(p.Kind) {
	case "addclass", "addiface", "addclass_sf", "addiface_sf", "getclass", "getiface", "loadpkg", "newobj", "sclassexists", "sifaceexists":
		return "type:" + name
	case "addfunc", "getfunc", "sfuncexists":
		return "func:" + name
	case "setconst", "getconst", "sgetconst":
		return "const:" + name
	case "global":
		return "glob:" + name
	case "setfile", "getfile":
		return "file:" + name
	case "getorload":
		return "load:" + name
	case "findfile":
		return "find:" + name
	case "srequire":
		return "require:" + name
	}
	return ""
}

// state is a string: "" (absent) or "C:<tag>" / "I:<tag>" / "<tag>"
var regModel = porcupine.Model{
	Init: func() interface{} { return "" },
	Step: func(state, input, output interface{}) (bool, interface{}) {
		st := state.(string)
		i := input.(in)
		out := output.(string)
		switch i.kind {
		case "addclass_sf", "addiface_sf":
			pre, tag := "C:", "sf-"+i.name
			if i.kind == "addiface_sf" {
				pre = "I:"
			}
			same := strings.HasSuffix(st, ":"+tag) // already declared from this very file (as a class or as an interface)
			if out == "ok" {
				if st == "" {
					return true, pre + tag
				}
				return same, st // re-import: accepted, nothing changes
			}
			return st != "" && !same, st
		case "addclass", "addiface":
			pre := "C:"
			if i.kind == "addiface" {
				pre = "I:"
			}
			if out == "ok" {
				return st == "", pre + i.id
			}
			return st != "", st
		case "getclass":
			if out == "notfound" {
				return !strings.HasPrefix(st, "C:"), st
			}
			if out == "found:R" {
				return strings.HasPrefix(st, "C:r"), st
			}
			return st == "C:"+strings.TrimPrefix(out, "found:"), st
		case "newobj":
			if out == "notfound" {
				return !strings.HasPrefix(st, "C:"), st
			}
			// an object of the registered class, complete
			return strings.HasPrefix(st, "C:") && (out == "object" || out == "object:missing=0"), st
		case "getiface":
			if out == "notfound" {
				return !strings.HasPrefix(st, "I:"), st
			}
			return st == "I:"+strings.TrimPrefix(out, "found:"), st
		case "sclassexists":
			return (out == "exists") == strings.HasPrefix(st, "C:") && (out == "exists" || out == "notfound"), st
		case "sifaceexists":
			return (out == "exists") == strings.HasPrefix(st, "I:") && (out == "exists" || out == "notfound"), st
		case "sfuncexists", "sgetconst":
			return (out == "exists") == (st != "") && (out == "exists" || out == "notfound"), st
		case "loadpkg":
			if out == "notfound" {
				return st == "", st
			}
			if out == "found:R" {
				return strings.HasPrefix(st, "C:r"), st
			}
			return len(st) > 2 && st[2:] == strings.TrimPrefix(out, "found:"), st
		case "addfunc", "setconst":
			if out == "ok" {
				return st == "", i.id
			}
			return st != "", st
		case "getfunc", "getconst":
			if out == "notfound" {
				return st == "", st
			}
			return st == strings.TrimPrefix(out, "found:"), st
		case "global":
			if st == "" {
				return true, out
			}
			return st == out, st
		case "setfile":
			return true, "set"
		case "getfile":
			return (out == "true") == (st == "set"), st
		case "getorload":
			// the class file exists: under every sequential order the class is found
			return strings.HasPrefix(out, "found:"), st
		case "findfile":
			return out == "true", st
		case "srequire":
			// after require_once returned, what the file declares exists, under every sequential order
			return out == "exists", st
		}
		return true, st
	},
	Equal: func(a, b interface{}) bool { return a.(string) == b.(string) },
}

func evaluate(o *hx.Outcome, ops []hx.HOp) {
	parts := map[string][]porcupine.Operation{}
	var keys []string
	overlapSame := 0
	for _, p := range ops {
		k := partitionKey(p)
		if k == "" || p.Ret == hx.Pending {
			continue
		}
		_, id, _ := strings.Cut(p.Arg, "#")
		if p.Kind == "regreflect" {
			id = "r" + id
		}
		if _, ok := parts[k]; !ok {
			keys = append(keys, k)
		}
		for _, q := range parts[k] {
			if q.Call < p.Return && p.Call < q.Return && strings.HasPrefix(p.Kind, "add") {
				overlapSame++
			}
		}
		parts[k] = append(parts[k], porcupine.Operation{ClientId: p.Task, Input: in{baseKind(p.Kind), id, strings.SplitN(p.Arg, "#", 2)[0]}, Output: p.Ret, Call: p.Call, Return: p.Return})
	}
	o.Probe("add_overlaps_op_on_same_name", int64(overlapSame))
	for _, k := range keys {
		h := parts[k]
		if len(h) > 64 {
			o.Inconclusive++
			continue
		}
		switch porcupine.CheckOperationsTimeout(regModel, h, 2*time.Second) {
		case porcupine.Illegal:
			var hs []string
			for _, q := range h {
				i := q.Input.(in)
				hs = append(hs, fmt.Sprintf("T%d:%s[%s]=%s@%d-%d", q.ClientId, i.kind, i.id, q.Output, q.Call, q.Return))
			}
			kind := k[:strings.IndexByte(k, ':')]
			o.Violate("C10/no-sequential-witness/"+kind+"/"+classify(h), fmt.Sprintf("calls on %s have no sequential explanation: %s", k, strings.Join(hs, " ")))
		case porcupine.Unknown:
			o.Inconclusive++
		}
	}
}

// classify names the kind of inconsistency for the signature.
func classify(h []porcupine.Operation) string {
	oks := 0
	loadErr := false
	for _, q := range h {
		i := q.Input.(in)
		if strings.HasPrefix(i.kind, "add") || i.kind == "setconst" {
			if q.Output.(string) == "ok" {
				oks++
			}
		}
		if i.kind == "getorload" && strings.HasPrefix(q.Output.(string), "error:") {
			loadErr = true
		}
		if i.kind == "srequire" && q.Output.(string) != "exists" {
			return "declarations-missing-after-require"
		}
		if i.kind == "newobj" && strings.HasPrefix(q.Output.(string), "object:missing=") && q.Output.(string) != "object:missing=0" {
			return "incomplete-object"
		}
	}
	switch {
	case loadErr:
		return "autoload-failed"
	case oks > 1:
		return "duplicate-accepted"
	}
	return "lookup-inconsistent"
}

var prop = &hx.Prop{
	ID: "C10", Gen: gen, Decode: decode, Focus: focus, Exec: exec, Shrink: shrink, FreshProcessOnly: false,
	Components: map[string]string{
		"runtime.VM registries (AddClass/AddInterface/AddFunc/Get*/LoadPkg/SetConstant/GetConstant/EnsureGlobalZVal/php file cache/AllClasses/AllFuncs/GetOrLoadClass)": "real (instrumented copy of /repo, -race build)",
		"parser + class path manager (autoload of fixture classes)": "real",
		"goroutine scheduling": "simulated: seeded one-task-at-a-time scheduler whose hand-off uses plain memory flags in norace functions, so ThreadSanitizer sees only the code's own synchronisation",
		"data race oracle":     "real Go race detector (ThreadSanitizer), made schedule-deterministic",
		"class files":          "real files in a fixture directory inside the scratch tree",
	},
}

func TestWorker(t *testing.T) { hx.Main(t, prop) }
