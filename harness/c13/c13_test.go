package c13

import (
	"encoding/json"
	"fmt"
	"math"
	"net/http"
	"os"
	"path/filepath"
	"sort"
	"strings"
	"sync"
	"testing"

	"github.com/php-any/origami/data"
	"github.com/php-any/origami/utils"
	"github.com/php-any/origami/verifharness/hx"
	"github.com/php-any/origami/verifsim"
)

// ROp is one response operation of the 11-letter alphabet.
type ROp struct {
	K string `json:"k"`           // status header cookie write json html redirect nocontent writeheader success error
	A string `json:"a,omitempty"` // string argument
	C int    `json:"c,omitempty"` // status code argument (0: omitted)
}

type MW struct {
	Prio  int   `json:"prio"`
	Pre   []ROp `json:"pre,omitempty"`
	Post  []ROp `json:"post,omitempty"`
	Short bool  `json:"short,omitempty"` // does not call $next
	Class bool  `json:"class,omitempty"` // registered as an object with a handle() method instead of a closure
	Owner int   `json:"owner,omitempty"` // 0: registered on the server; g>0: on route group g
	Late  bool  `json:"late,omitempty"`  // server middleware registered after the groups were created
}

type W struct {
	Ops        []ROp `json:"ops"`
	MWs        []MW  `json:"middlewares,omitempty"`
	HasOnError bool  `json:"on_error"`
	OnError    []ROp `json:"on_error_ops,omitempty"`
	Strict     bool  `json:"strict_conn,omitempty"`
	FailWrite  int   `json:"fail_write_at,omitempty"`
	Aborts     bool  `json:"aborts"`              // try a handler abort before every operation
	OnFormat   bool  `json:"on_format,omitempty"` // a custom formatter for success()/error()
	// Groups: sibling route groups created (with $server->group) after the early
	// server middlewares; RouteOwner: who registers the tested route
	Groups     int `json:"groups,omitempty"`
	RouteOwner int `json:"route_owner,omitempty"`
	// Conc: instead of one request after another, this many clients send the request
	// at the same time; each response must satisfy the model on its own
	Conc int `json:"concurrent_clients,omitempty"`
	// Head: the request is sent with method HEAD (Go's mux routes it to the GET route); the connection
	// is the simulated one, so everything the handler does must reach it exactly as for GET
	Head bool `json:"head_request,omitempty"`
}

func (w *W) method() string {
	if w.Head {
		return "HEAD"
	}
	return "GET"
}

// effective lists the middlewares (indices into w.MWs, in registration order) that wrap the tested route.
func (w *W) effective() []int {
	var early, rest []int
	for i, m := range w.MWs {
		switch {
		case m.Owner == 0 && !m.Late:
			early = append(early, i)
		case m.Owner == 0 && m.Late && w.RouteOwner == 0:
			rest = append(rest, i)
		case m.Owner != 0 && m.Owner == w.RouteOwner:
			rest = append(rest, i)
		}
	}
	return append(early, rest...)
}

func (w *W) routePath() string {
	if w.RouteOwner > 0 {
		return fmt.Sprintf("/g%d/t", w.RouteOwner)
	}
	return "/t"
}

// pickCode: mostly well-known codes; one in five is ANY code from 200 to 599 (unregistered ones such as 299, 499
// or 520 are sent by net/http as they are: a status is a number, not an entry of a table of names)
func pickCode(r *verifsim.Rng) int {
	if r.Intn(5) == 0 {
		return 200 + r.Intn(400)
	}
	return verifsim.Pick(r, codes)
}

var codes = []int{200, 201, 202, 203, 204, 205, 226, 301, 302, 304, 307, 308, 400, 401, 403, 404, 409, 418, 422, 429, 451, 500, 502, 503}

func genOp(r *verifsim.Rng, n int) ROp {
	k := verifsim.Pick(r, []string{"status", "status", "header", "header", "cookie", "write", "write", "json", "html", "redirect", "nocontent", "writeheader", "success", "error", "format", "file", "manywrites", "manyheaders"})
	op := ROp{K: k}
	switch k {
	case "status", "writeheader":
		op.C = pickCode(r)
	case "header":
		op.A = fmt.Sprintf("X-H%d=v%d", r.Intn(3), n)
		if r.Intn(4) == 0 {
			// one header under several spellings (header names are case-insensitive: the last set wins whatever the spelling)
			fam := verifsim.Pick(r, [][]string{{"X-Request-ID", "x-request-id", "X-Request-Id", "X-REQUEST-ID"}, {"X-XSS-Protection", "x-xss-protection", "X-Xss-Protection"}, {"X-CSRF-Token", "x-csrf-token", "X-Csrf-Token"}})
			op.A = fmt.Sprintf("%s=v%d", verifsim.Pick(r, fam), n)
		}
		switch r.Intn(8) {
		case 0: // a name that needs canonicalisation
			op.A = fmt.Sprintf("x-lower-%d=v%d", r.Intn(2), n)
		case 1: // a header the body-producing calls set themselves
			op.A = fmt.Sprintf("Content-Type=text/x-custom%d", n)
		case 2:
			op.A = fmt.Sprintf("Cache-Control=max-age=%d", n)
		}
	case "cookie":
		op.A = fmt.Sprintf("c%d=v%d", r.Intn(2), n)
		if r.Intn(3) == 0 {
			// names that are prefixes of one another, and an options array built by assignment with a lifetime
			// (C: 1 expire now (maxAge -1), 2 session (0), 3 an hour): every cookie() call before the commit is one
			// Set-Cookie line of its own, whatever the other cookies are called
			op.A = fmt.Sprintf("%s=v%d", verifsim.Pick(r, []string{"session", "session_id", "id", "identity_token", "sess"}), n)
			op.C = r.Intn(4)
		}
	case "write":
		op.A = fmt.Sprintf("w%d.", n)
		switch r.Intn(20) {
		case 0, 1:
			op.A = ""
		case 2: // a large write (buffering thresholds)
			op.A = fmt.Sprintf("big%d:", n) + strings.Repeat("x", verifsim.Pick(r, []int{512, 4096, 5000, 65536, 70000}))
		}
	case "json":
		op.A = fmt.Sprintf("j%d", n)
		if r.Intn(12) == 0 { // a large document (buffering and length thresholds)
			op.A = fmt.Sprintf("bigj%d:", n) + strings.Repeat("y", verifsim.Pick(r, []int{4096, 33000, 70000}))
		}
	case "html":
		op.A = fmt.Sprintf("h%d", n)
		if r.Intn(12) == 0 {
			op.A = fmt.Sprintf("bigh%d:", n) + strings.Repeat("z", verifsim.Pick(r, []int{4096, 33000, 70000}))
		}
		// always with an explicit code: html()'s declared default (200) makes
		// "html($s)" ambiguous between "sets 200" and "keeps the pending status"
		op.C = pickCode(r)
	case "redirect":
		op.A = fmt.Sprintf("/r%d", n)
		if r.Intn(2) == 0 {
			op.C = verifsim.Pick(r, []int{301, 302, 303, 307})
		}
	case "nocontent":
		if r.Intn(2) == 0 {
			op.C = verifsim.Pick(r, []int{204, 205, 202})
		}
	case "success":
		op.A = fmt.Sprintf("s%d", n)
	case "error":
		op.A = fmt.Sprintf("e%d", n)
		op.C = verifsim.Pick(r, []int{400, 404, 500, 503})
	case "format": // the envelope of success()/error() with a code of the caller's choice
		op.A = fmt.Sprintf("f%d", n)
		op.C = verifsim.Pick(r, []int{200, 201, 202, 400, 409, 500})
	case "file": // a download: content type by extension, attachment disposition, the file's bytes
		op.A = fmt.Sprintf("dl%d.bin", n)
	case "manywrites", "manyheaders": // one call site executed hundreds of times
		op.A = fmt.Sprintf("m%d.", n)
		op.C = verifsim.Pick(r, []int{40, 300, 700})
	}
	return op
}

func genOps(r *verifsim.Rng, max int, base int) []ROp {
	n := r.Intn(max + 1)
	var ops []ROp
	for i := 0; i < n; i++ {
		ops = append(ops, genOp(r, base+i))
	}
	return ops
}

func gen(r *verifsim.Rng, tier string) (any, hx.Sched) {
	w := &W{}
	w.Ops = genOps(r, 8, 0)
	nm := verifsim.Pick(r, []int{0, 0, 0, 1, 2, 3, 5})
	many := r.Intn(25) == 0
	if many {
		// sorting algorithms switch strategy above a dozen elements: a long
		// stack with many ties
		nm = 13 + r.Intn(8)
	}
	for i := 0; i < nm; i++ {
		m := MW{Prio: verifsim.Pick(r, []int{-1, 0, 0, 1, 5})}
		if many {
			m.Prio = verifsim.Pick(r, []int{-2, 0, 0, 0, 3, 3})
			w.MWs = append(w.MWs, m)
			continue
		}
		if r.Intn(3) == 0 {
			m.Pre = genOps(r, 2, 100+10*i)
		}
		if r.Intn(3) == 0 {
			m.Post = genOps(r, 2, 200+10*i)
		}
		m.Short = r.Intn(8) == 0
		m.Class = r.Intn(4) == 0
		if r.Intn(10) == 0 {
			// the ends of the integer range and values near them ("always outermost" / "always innermost")
			m.Prio = verifsim.Pick(r, []int{math.MaxInt64, math.MinInt64, math.MaxInt64 - 1, math.MinInt64 + 1, 1 << 62, -(1 << 62), 1 << 31, -(1 << 31) - 1})
		}
		w.MWs = append(w.MWs, m)
	}
	if !many && r.Intn(4) == 0 {
		// route groups: each group inherits the server's middlewares as of its creation
		// and adds its own; siblings and late server middlewares must not affect it
		w.Groups = 2 + r.Intn(2)
		for g := 1; g <= w.Groups; g++ {
			for k := 0; k < 1+r.Intn(2); k++ {
				w.MWs = append(w.MWs, MW{Prio: verifsim.Pick(r, []int{-1, 0, 0, 1, 5}), Owner: g})
			}
		}
		if r.Intn(2) == 0 {
			w.MWs = append(w.MWs, MW{Prio: verifsim.Pick(r, []int{-1, 0, 1}), Late: true})
		}
		// registration order of the late ones = index order: shuffle them
		first := 0
		for first < len(w.MWs) && w.MWs[first].Owner == 0 && !w.MWs[first].Late {
			first++
		}
		tail := w.MWs[first:]
		for i := len(tail) - 1; i > 0; i-- {
			j := r.Intn(i + 1)
			tail[i], tail[j] = tail[j], tail[i]
		}
		w.RouteOwner = r.Intn(w.Groups + 1)
	}
	if r.Intn(2) == 0 {
		w.HasOnError = true
		w.OnError = genOps(r, 3, 300)
	}
	if r.Intn(5) == 0 {
		w.Conc = 2 + r.Intn(2)
	}
	w.Head = r.Intn(6) == 0
	w.OnFormat = r.Intn(5) == 0
	if w.OnFormat {
		// The request's formatter is detached when the handler returns, so success()/
		// error() inside the error handler use the default envelope. What those calls
		// write is not C13's subject (their bytes are calibrated in a plain handler),
		// so with a custom formatter the error handler does not use them.
		var keep []ROp
		for _, op := range w.OnError {
			if op.K != "success" && op.K != "error" && op.K != "format" {
				keep = append(keep, op)
			}
		}
		w.OnError = keep
	}
	w.Strict = r.Intn(3) == 0
	if r.Intn(4) == 0 {
		w.FailWrite = 1 + r.Intn(3)
	}
	w.Aborts = r.Intn(4) != 0
	s := hx.SwarmSched(r, nil)
	s.MeanGap = 100000
	s.MaxSteps = 100000
	return w, s
}

func decode(raw json.RawMessage) (any, error) {
	w := &W{}
	return w, json.Unmarshal(raw, w)
}

func shrink(x any) []any {
	w := x.(*W)
	var out []any
	cp := func() *W {
		b, _ := json.Marshal(w)
		c := &W{}
		json.Unmarshal(b, c)
		return c
	}
	if w.Conc > 2 {
		c := cp()
		c.Conc--
		out = append(out, c)
	}
	for i := range w.MWs {
		c := cp()
		c.MWs = append(c.MWs[:i], c.MWs[i+1:]...)
		out = append(out, c)
	}
	for i := range w.Ops {
		c := cp()
		c.Ops = append(c.Ops[:i], c.Ops[i+1:]...)
		out = append(out, c)
	}
	if w.HasOnError {
		c := cp()
		c.HasOnError = false
		c.OnError = nil
		out = append(out, c)
		for i := range w.OnError {
			c := cp()
			c.OnError = append(c.OnError[:i], c.OnError[i+1:]...)
			out = append(out, c)
		}
	}
	for i := range w.MWs {
		if len(w.MWs[i].Pre) > 0 {
			c := cp()
			c.MWs[i].Pre = nil
			out = append(out, c)
		}
		if len(w.MWs[i].Post) > 0 {
			c := cp()
			c.MWs[i].Post = nil
			out = append(out, c)
		}
		if w.MWs[i].Short {
			c := cp()
			c.MWs[i].Short = false
			out = append(out, c)
		}
	}
	if w.Strict {
		c := cp()
		c.Strict = false
		out = append(out, c)
	}
	if w.FailWrite > 0 {
		c := cp()
		c.FailWrite = 0
		out = append(out, c)
	}
	return out
}

// ---- script generation -------------------------------------------------------

func render(op ROp, v string) string {
	switch op.K {
	case "status":
		return fmt.Sprintf("%s->status(%d);", v, op.C)
	case "writeheader":
		return fmt.Sprintf("%s->writeHeader(%d);", v, op.C)
	case "header":
		k, val, _ := strings.Cut(op.A, "=")
		return fmt.Sprintf("%s->header(%q, %q);", v, k, val)
	case "cookie":
		k, val, _ := strings.Cut(op.A, "=")
		if op.C > 0 {
			return fmt.Sprintf("$co = []; $co[\"path\"] = \"/\"; $co[\"maxAge\"] = %d; %s->cookie(%q, %q, $co);", []int{0, -1, 0, 3600}[op.C], v, k, val)
		}
		return fmt.Sprintf("%s->cookie(%q, %q, [\"path\" => \"/\"]);", v, k, val)
	case "write":
		return fmt.Sprintf("%s->write(%q);", v, op.A)
	case "json":
		return fmt.Sprintf("%s->json([\"k\" => %q, \"n\" => 1]);", v, op.A)
	case "html":
		if op.C != 0 {
			return fmt.Sprintf("%s->html(%q, %d);", v, "<b>"+op.A+"</b>", op.C)
		}
		return fmt.Sprintf("%s->html(%q);", v, "<b>"+op.A+"</b>")
	case "redirect":
		if op.C != 0 {
			return fmt.Sprintf("%s->redirect(%q, %d);", v, op.A, op.C)
		}
		return fmt.Sprintf("%s->redirect(%q);", v, op.A)
	case "nocontent":
		if op.C != 0 {
			return fmt.Sprintf("%s->noContent(%d);", v, op.C)
		}
		return fmt.Sprintf("%s->noContent();", v)
	case "success":
		return fmt.Sprintf("%s->success([\"d\" => %q]);", v, op.A)
	case "error":
		return fmt.Sprintf("%s->error(%q, %d);", v, op.A, op.C)
	case "format":
		return fmt.Sprintf("%s->format(%d, %q, [\"d\" => 1]);", v, op.C, op.A)
	case "file":
		return fmt.Sprintf("%s->file(%q, %q);", v, fixtureFile(), op.A)
	case "manywrites":
		return fmt.Sprintf("for ($mi = 0; $mi < %d; $mi++) { %s->write(%q); }", op.C, v, op.A)
	case "manyheaders":
		return fmt.Sprintf("for ($mi = 0; $mi < %d; $mi++) { %s->header(\"X-Many\", %q . $mi); }", op.C, v, op.A)
	}
	panic("unknown op " + op.K)
}

// ops are numbered globally so the harness can log which ones ran
type numbered struct {
	id  int
	op  ROp
	seg string // "h" handler, "pre<i>", "post<i>", "err"
}

func number(w *W) []numbered {
	var all []numbered
	add := func(ops []ROp, seg string) {
		for _, o := range ops {
			all = append(all, numbered{len(all), o, seg})
		}
	}
	add(w.Ops, "h")
	for i, m := range w.MWs {
		add(m.Pre, fmt.Sprintf("pre%d", i))
		add(m.Post, fmt.Sprintf("post%d", i))
	}
	add(w.OnError, "err")
	return all
}

func script(w *W) string {
	all := number(w)
	seg := func(name, v string, withFail bool) string {
		var b strings.Builder
		k := 0
		for _, n := range all {
			if n.seg != name {
				continue
			}
			if withFail {
				fmt.Fprintf(&b, "    __fail(%d);\n", k)
			}
			fmt.Fprintf(&b, "    __start(%d); %s __done(%d);\n", n.id, render(n.op, v), n.id)
			k++
		}
		if withFail {
			fmt.Fprintf(&b, "    __fail(%d);\n", k)
		}
		return b.String()
	}
	var b strings.Builder
	b.WriteString("<?php\nuse Net\\Http\\Server;\n")
	for i, m := range w.MWs {
		if m.Class {
			fmt.Fprintf(&b, "class Mw%d {\n  public function handle($request, $response, $next) {\n    __mark(\"enter%d\");\n%s", i, i, seg(fmt.Sprintf("pre%d", i), "$response", false))
			if !m.Short {
				fmt.Fprintf(&b, "    $next($request, $response);\n    __mark(\"back%d\");\n", i)
			}
			fmt.Fprintf(&b, "%s    __mark(\"exit%d\");\n  }\n}\n", seg(fmt.Sprintf("post%d", i), "$response", false), i)
		}
	}
	b.WriteString("$server = new Server('127.0.0.1', 0);\n")
	if w.OnFormat {
		// registered first, so that the calibration routes use the same formatter
		b.WriteString("$server->onFormat(function ($code, $message, $data) {\n  return [\"c\" => $code, \"m\" => $message, \"d\" => $data, \"fmt\" => \"custom\"];\n});\n")
	}
	// calibration routes: one body-producing operation alone, no middleware, no error handler
	for _, n := range all {
		switch n.op.K {
		case "json", "html", "success", "error", "format", "file":
			fmt.Fprintf(&b, "$server->get('/solo/%d', function ($req, $res) { %s });\n", n.id, render(n.op, "$res"))
		}
	}
	if w.HasOnError {
		fmt.Fprintf(&b, "$server->onError(function ($request, $response, $error) {\n    __mark(\"onerror\");\n%s});\n", seg("err", "$response", false))
	}
	emit := func(i int, m MW) {
		target := "$server"
		if m.Owner > 0 {
			target = fmt.Sprintf("$g%d", m.Owner)
		}
		if m.Class {
			fmt.Fprintf(&b, "%s->middleware(new Mw%d(), %s);\n", target, i, prioLit(m.Prio))
			return
		}
		fmt.Fprintf(&b, "%s->middleware(function ($request, $response, $next) {\n    __mark(\"enter%d\");\n%s", target, i, seg(fmt.Sprintf("pre%d", i), "$response", false))
		if !m.Short {
			fmt.Fprintf(&b, "    $next($request, $response);\n    __mark(\"back%d\");\n", i)
		}
		fmt.Fprintf(&b, "%s    __mark(\"exit%d\");\n}, %s);\n", seg(fmt.Sprintf("post%d", i), "$response", false), i, prioLit(m.Prio))
	}
	for i, m := range w.MWs {
		if m.Owner == 0 && !m.Late {
			emit(i, m)
		}
	}
	for g := 1; g <= w.Groups; g++ {
		fmt.Fprintf(&b, "$g%d = $server->group('/g%d');\n", g, g)
	}
	for i, m := range w.MWs {
		if m.Owner != 0 || m.Late {
			emit(i, m)
		}
	}
	target := "$server"
	if w.RouteOwner > 0 {
		target = fmt.Sprintf("$g%d", w.RouteOwner)
	}
	fmt.Fprintf(&b, "%s->get('/t', function ($req, $res) {\n    __mark(\"handler\");\n%s});\n", target, seg("h", "$res", true))
	return b.String()
}

// ---- reference model (commit-once) ------------------------------------------

type model struct {
	status    int
	statusSet bool
	committed bool
	pending   http.Header
	sent      http.Header
	body      string
	writes    int
	w         *W
	bodies    map[int]string // calibrated body bytes per op id
}

func newModel(w *W, bodies map[int]string) *model {
	return &model{status: 200, pending: http.Header{}, w: w, bodies: bodies}
}

func (m *model) commit() {
	if !m.committed {
		m.committed = true
		m.sent = m.pending.Clone()
	}
}

func (m *model) setStatus(c int) {
	if !m.committed {
		m.status = c
		m.statusSet = true
	}
}

func (m *model) setHeader(k, v string) {
	if !m.committed {
		m.pending.Set(k, v)
	}
}

// write models one Write call on the connection; returns false if the
// connection refuses it (the operation then throws).
func (m *model) write(s string) bool {
	m.commit()
	m.writes++
	if m.w.FailWrite > 0 && m.writes >= m.w.FailWrite {
		return false
	}
	if m.w.Strict && (m.status == 204 || m.status == 304 || (m.status >= 100 && m.status < 200)) {
		return len(s) == 0
	}
	m.body += s
	return true
}

// apply returns false if the operation throws.
func (m *model) apply(n numbered) bool {
	op := n.op
	switch op.K {
	case "status":
		m.setStatus(op.C)
	case "writeheader":
		if !m.committed {
			m.status = op.C
			m.commit()
		}
	case "header":
		k, v, _ := strings.Cut(op.A, "=")
		m.setHeader(k, v)
	case "cookie":
		if !m.committed {
			m.pending.Add("Set-Cookie", op.A)
		}
	case "write":
		return m.write(op.A)
	case "json":
		m.setHeader("Content-Type", "application/json; charset=utf-8")
		return m.write(m.bodies[n.id])
	case "html":
		if op.C != 0 {
			m.setStatus(op.C)
		}
		m.setHeader("Content-Type", "text/html; charset=utf-8")
		return m.write(m.bodies[n.id])
	case "redirect":
		m.setHeader("Location", op.A)
		c := op.C
		if c == 0 {
			c = 302
		}
		m.setStatus(c)
		m.commit()
		m.writes++ // zero-length write on the connection
	case "nocontent":
		c := op.C
		if c == 0 {
			c = 204
		}
		m.setStatus(c)
		m.commit()
	case "success":
		m.setStatus(200)
		m.setHeader("Content-Type", "application/json; charset=utf-8")
		return m.write(m.bodies[n.id])
	case "error", "format":
		m.setStatus(op.C)
		m.setHeader("Content-Type", "application/json; charset=utf-8")
		return m.write(m.bodies[n.id])
	case "manywrites":
		for i := 0; i < op.C; i++ {
			if !m.write(op.A) {
				return false
			}
		}
	case "manyheaders":
		for i := 0; i < op.C; i++ {
			m.setHeader("X-Many", fmt.Sprintf("%s%d", op.A, i))
		}
	case "file":
		m.setHeader("Content-Type", "application/octet-stream")
		m.setHeader("Content-Disposition", fmt.Sprintf("attachment; filename=%q", op.A))
		return m.write(m.bodies[n.id])
	}
	return true
}

// exit: a handler or middleware returned: a status that was set but not yet
// committed is committed now.
func (m *model) exit() {
	if !m.committed && m.statusSet {
		m.commit()
	}
}

func (m *model) clientStatus() int {
	return m.status
}

func (m *model) clientHeaders() http.Header {
	if m.committed {
		return m.sent
	}
	return m.pending
}

// ---- execution ---------------------------------------------------------------

type reqLog struct {
	events  []string // "op:<id>" and "mark:<name>" in the order they happened
	started []int
	done    map[int]bool
	marks   []string
	failed  bool
}

func exec(t *testing.T, x any, s hx.Sched) *hx.Outcome {
	w := x.(*W)
	o := &hx.Outcome{}
	all := number(w)
	src := script(w)
	var lg *reqLog
	lgBy := map[string]*reqLog{} // concurrent mode: one log per client task (tasks run one at a time)
	cur := func() *reqLog {
		if l, ok := lgBy[verifsim.TaskName()]; ok {
			return l
		}
		return lg
	}
	abortAt := -1
	var setupErr string
	type result struct {
		abort int
		conn  *hx.SimConn
		log   *reqLog
		pan   any
	}
	var results []result
	bodies := map[int]string{}
	var env *hx.Env
	res := hx.RunBubble(t, s.Config(0), func(sim *verifsim.Sim) {
		env = hx.NewEnv()
		env.Capture()
		env.VM.AddFunc(&hx.GoFunc{Name: "__start", Params: []string{"id"}, Fn: func(ctx data.Context, a []data.Value) (data.GetValue, data.Control) {
			if lg := cur(); lg != nil {
				lg.started = append(lg.started, atoi(hx.ValStr(a[0])))
				lg.events = append(lg.events, "op:"+hx.ValStr(a[0]))
			}
			return data.NewNullValue(), nil
		}})
		env.VM.AddFunc(&hx.GoFunc{Name: "__done", Params: []string{"id"}, Fn: func(ctx data.Context, a []data.Value) (data.GetValue, data.Control) {
			if lg := cur(); lg != nil {
				lg.done[atoi(hx.ValStr(a[0]))] = true
			}
			return data.NewNullValue(), nil
		}})
		env.VM.AddFunc(&hx.GoFunc{Name: "__mark", Params: []string{"m"}, Fn: func(ctx data.Context, a []data.Value) (data.GetValue, data.Control) {
			if lg := cur(); lg != nil {
				lg.marks = append(lg.marks, hx.ValStr(a[0]))
				lg.events = append(lg.events, "mark:"+hx.ValStr(a[0]))
			}
			return data.NewNullValue(), nil
		}})
		env.VM.AddFunc(&hx.GoFunc{Name: "__fail", Params: []string{"k"}, Fn: func(ctx data.Context, a []data.Value) (data.GetValue, data.Control) {
			if atoi(hx.ValStr(a[0])) == abortAt {
				if lg := cur(); lg != nil {
					lg.failed = true
				}
				return nil, utils.NewThrowf("injected handler abort before operation %d", abortAt)
			}
			return data.NewNullValue(), nil
		}})
		sim.Spawn("client", func() {
			ctx, vars, ctl := env.Run(src, "/verif/c13.php")
			if ctl != nil {
				setupErr = hx.CtlStr(ctl)
				return
			}
			mux, err := hx.MuxOf(hx.Var(ctx, vars, "server"))
			if err != nil {
				setupErr = err.Error()
				return
			}
			// calibration: body bytes of each body-producing operation when it is the only one
			for _, n := range all {
				switch n.op.K {
				case "json", "html", "success", "error", "format", "file":
					c := hx.NewSimConn()
					lg = nil
					hx.Serve(mux, c, hx.NewRequest("GET", fmt.Sprintf("/solo/%d", n.id), nil, nil, nil))
					bodies[n.id] = c.Body.String()
				}
			}
			if w.Conc > 1 {
				lg = nil
				results = make([]result, w.Conc)
				for ci := 0; ci < w.Conc; ci++ {
					ci := ci
					name := fmt.Sprintf("client%d", ci)
					l := &reqLog{done: map[int]bool{}}
					lgBy[name] = l
					sim.Spawn(name, func() {
						c := hx.NewSimConn()
						c.Strict = w.Strict
						c.FailWriteAt = w.FailWrite
						p := hx.Serve(mux, c, hx.NewRequest(w.method(), w.routePath(), nil, nil, nil))
						results[ci] = result{-1, c, l, p}
					})
				}
				o.Probe("concurrent_client_runs", 1)
				return
			}
			aborts := []int{-1}
			if w.Aborts {
				for k := 0; k <= len(w.Ops); k++ {
					aborts = append(aborts, k)
				}
			}
			for _, k := range aborts {
				abortAt = k
				lg = &reqLog{done: map[int]bool{}}
				c := hx.NewSimConn()
				c.Strict = w.Strict
				c.FailWriteAt = w.FailWrite
				p := hx.Serve(mux, c, hx.NewRequest(w.method(), w.routePath(), nil, nil, nil))
				results = append(results, result{k, c, lg, p})
			}
			lg = nil
		})
	})
	data.ResetOutputWriter()
	o.Res = res
	if setupErr != "" {
		o.Violate("C13/harness-setup", "server script failed: "+setupErr)
		return o
	}
	var hashParts []string
	var sampleReqs []any
	for _, r := range results {
		if r.conn == nil {
			continue // a concurrent client that never finished (reported below as a deadlock or panic)
		}
		desc := check(o, w, all, bodies, r.abort, r.conn, r.log, r.pan)
		hashParts = append(hashParts, desc)
		if len(sampleReqs) < 3 {
			sampleReqs = append(sampleReqs, desc)
		}
	}
	for _, p := range res.Panics {
		o.Violate(hx.PanicSig("C13", p), "client task panicked: "+p.Value)
	}
	if res.Outcome == verifsim.OutDeadlock {
		o.Violate("C13/deadlock", fmt.Sprintf("concurrent clients deadlocked: %v", res.Blocked))
	}
	o.Hash = hx.HashStrings(hashParts...)
	o.NonTrivial = len(w.Ops) > 0
	o.Sample = map[string]any{"workload": w, "requests": sampleReqs, "script": src}
	return o
}

var fixtureOnce sync.Once

// fixtureFile is the (small: one Write on the connection) file that the "file" operation sends.
func fixtureFile() string {
	p := filepath.Join(filepath.Dir(os.Args[0]), "c13files", "payload.bin")
	fixtureOnce.Do(func() {
		os.MkdirAll(filepath.Dir(p), 0o755)
		text := strings.Repeat("FILE-PAYLOAD;", 8)
		if b, err := os.ReadFile(p); err == nil && string(b) == text {
			return
		}
		tmp := fmt.Sprintf("%s.%d", p, os.Getpid())
		if err := os.WriteFile(tmp, []byte(text), 0o644); err != nil {
			panic(err)
		}
		os.Rename(tmp, p)
	})
	return p
}

func prioLit(p int) string {
	if p == math.MinInt64 {
		return "PHP_INT_MIN"
	}
	return fmt.Sprint(p)
}

func atoi(s string) int {
	n := 0
	fmt.Sscan(s, &n)
	return n
}

// check compares one request's observation with the reference model.
func check(o *hx.Outcome, w *W, all []numbered, bodies map[int]string, abort int, c *hx.SimConn, lg *reqLog, pan any) string {
	desc := fmt.Sprintf("abort=%d commits=%v implicit=%v status=%d hdr=%s body=%q marks=%v", abort, c.CommitCodes(), c.Implicit, c.Status(), hx.HeaderString(c.SentHeader()), c.Body.String(), lg.marks)
	if lg.failed {
		o.Fault("handler_abort", 1)
	}
	if c.Failed > 0 {
		o.Fault("conn_write_refused", int64(c.Failed))
	}
	// invariant 1: at most one header commit reaches the connection
	if len(c.Commits) > 1 {
		kind := "handler"
		for _, m := range lg.marks {
			if m == "onerror" {
				kind = "onError"
			}
		}
		o.Violate("C13/double-commit/"+kind, fmt.Sprintf("the connection saw %d header commits %v (ops=%s) %s", len(c.Commits), c.CommitCodes(), opsString(w), desc))
		o.Probe("two_header_commits_attempted", 1)
		return desc
	}
	if c.Implicit && len(c.Commits) > 0 {
		o.Violate("C13/body-before-header", "a body write reached the connection before the header commit: "+desc)
		return desc
	}
	// which operations ran, in order
	byID := map[int]numbered{}
	for _, n := range all {
		byID[n.id] = n
	}
	// expected placement of exits: after the handler segment, after each middleware's post segment, after onError
	type tok struct {
		n    *numbered
		exit bool
		note string
	}
	var toks []tok
	aborted := lg.failed
	// Exits (a closure returned, so its deferred commit of a pending status
	// ran) are placed where the event log proves that closures have returned:
	// at a middleware's exit mark, before the first post-operation of a
	// middleware (its $next call came back), before the error handler starts,
	// and at the end of the request.
	for _, ev := range lg.events {
		kind, arg, _ := strings.Cut(ev, ":")
		if kind == "mark" {
			switch {
			case strings.HasPrefix(arg, "exit"), strings.HasPrefix(arg, "back"):
				toks = append(toks, tok{exit: true, note: "mw"})
			case arg == "onerror":
				toks = append(toks, tok{exit: true, note: "abort"})
			}
			continue
		}
		id := atoi(arg)
		n := byID[id]
		toks = append(toks, tok{n: &n})
	}
	toks = append(toks, tok{exit: true, note: "end"})

	run := func(skipAbortExit bool) (*model, bool) {
		m := newModel(w, bodies)
		consistent := true
		for _, tk := range toks {
			if tk.exit {
				if skipAbortExit && tk.note == "abort" {
					continue
				}
				m.exit()
				continue
			}
			ok := m.apply(*tk.n)
			if ok != lg.done[tk.n.id] {
				consistent = false
			}
		}
		return m, consistent
	}
	match := func(m *model) (bool, string) {
		if c.Status() != m.clientStatus() {
			return false, fmt.Sprintf("status: client saw %d, model says %d", c.Status(), m.clientStatus())
		}
		got := hx.ClientView(c.SentHeader())
		for k, v := range m.clientHeaders() {
			g := append([]string{}, got[k]...)
			e := append([]string{}, v...)
			if k == "Set-Cookie" {
				for i := range g {
					g[i], _, _ = strings.Cut(g[i], ";")
				}
				sort.Strings(g)
				sort.Strings(e)
			}
			if strings.Join(g, "|") != strings.Join(e, "|") {
				return false, fmt.Sprintf("header %s: client saw %q, model says %q", k, g, e)
			}
		}
		if c.Body.String() != m.body {
			return false, fmt.Sprintf("body: client saw %q, model says %q", c.Body.String(), m.body)
		}
		return true, ""
	}
	m1, cons1 := run(false)
	ok, why := match(m1)
	if !ok {
		// an aborted handler followed by an error handler: the error handler's
		// status may legitimately win if nothing was committed at the abort
		m2, cons2 := run(true)
		if ok2, _ := match(m2); ok2 {
			ok, cons1 = true, cons2
		}
	}
	if !ok {
		what := strings.Fields(strings.SplitN(why, ":", 2)[0])[0]
		ctx := "plain"
		switch {
		case aborted:
			ctx = "after-abort"
		case c.Failed > 0:
			ctx = "after-write-error"
		case len(w.MWs) > 0:
			ctx = "with-middleware"
		}
		o.Violate("C13/model-mismatch/"+what+"/"+ctx, fmt.Sprintf("%s; ops=%s executed=%v %s", why, opsString(w), lg.started, desc))
		return desc
	}
	if !cons1 && c.Failed == 0 {
		o.Violate("C13/op-threw-unexpectedly", fmt.Sprintf("an operation threw although the connection accepted everything: ops=%s executed=%v done=%v %s", opsString(w), lg.started, lg.done, desc))
	}
	// middleware order (only for requests that were not aborted and lost no writes)
	threw := false
	for _, id := range lg.started {
		if !lg.done[id] {
			threw = true
		}
	}
	if !aborted && c.Failed == 0 && !threw {
		idx := w.effective()
		sort.SliceStable(idx, func(a, b int) bool { return w.MWs[idx[a]].Prio < w.MWs[idx[b]].Prio })
		var exp []string
		depth := 0
		for _, i := range idx {
			exp = append(exp, fmt.Sprintf("enter%d", i))
			depth++
			if w.MWs[i].Short {
				break
			}
		}
		reached := depth == len(idx) && (len(idx) == 0 || !w.MWs[idx[len(idx)-1]].Short)
		if reached {
			exp = append(exp, "handler")
		}
		for d := depth - 1; d >= 0; d-- {
			if !w.MWs[idx[d]].Short {
				exp = append(exp, fmt.Sprintf("back%d", idx[d]))
			}
			exp = append(exp, fmt.Sprintf("exit%d", idx[d]))
		}
		if strings.Join(exp, ",") != strings.Join(lg.marks, ",") {
			o.Violate("C13/middleware-order", fmt.Sprintf("middlewares ran as %v, expected %v (priorities %v)", lg.marks, exp, prios(w)))
		}
		if len(w.MWs) > 1 {
			o.Probe("middleware_stack_ordered", 1)
		}
	}
	return desc
}

func prios(w *W) []int {
	var p []int
	for _, m := range w.MWs {
		p = append(p, m.Prio)
	}
	return p
}

func opsString(w *W) string {
	var parts []string
	for _, op := range w.Ops {
		parts = append(parts, render(op, "$res"))
	}
	s := strings.Join(parts, " ")
	if w.HasOnError {
		var e []string
		for _, op := range w.OnError {
			e = append(e, render(op, "$response"))
		}
		s += " | onError: " + strings.Join(e, " ")
	}
	return s
}

var prop = &hx.Prop{
	ID: "C13", Gen: gen, Decode: decode, Exec: exec, Shrink: shrink,
	Components: map[string]string{
		"std/net/http Server, route registration, Handler, middleware stack, onError/onFormat, bufferedWriter, ResponseWriter methods": "real (instrumented copy of /repo)",
		"Go net/http ServeMux":                "real",
		"TCP listener, http.Server, conn":     "simulated: requests enter through ServeMux.ServeHTTP, responses leave through SimConn (records every WriteHeader with a header snapshot and every Write; can refuse writes)",
		"clock (success()/error() timestamp)": "simulated (synctest fake clock)",
		"handler abort":                       "injected: registered Go function __fail(k) throws before operation k",
	},
}

func TestWorker(t *testing.T) { hx.Main(t, prop) }
