package c09

import (
	"encoding/json"
	"fmt"
	"sort"
	"strings"
	"testing"
	"time"

	"github.com/anishathalye/porcupine"
	"github.com/php-any/origami/data"
	"github.com/php-any/origami/std/channel"
	"github.com/php-any/origami/verifharness/hx"
	"github.com/php-any/origami/verifsim"
)

var focus = []string{"std/channel/", "std/spawn.go", "node/lambda.go"}

// W is the explicit workload of one C09 run.
type W struct {
	Level     string `json:"level"` // L1: Go-level Channel; L2: script level (spawn + Channel class)
	Cap       int    `json:"cap"`
	Producers []int  `json:"producers"` // sends per producer
	Consumers []int  `json:"consumers"` // receives per consumer; -1: until null
	Closers   int    `json:"closers"`
	// CloseAfter: the closers start only when every producer has returned
	// (region the known close race cannot mask).
	CloseAfter bool `json:"close_after_producers"`
	Observers  int  `json:"observers"`
	// SleepMask: bit i set → task i sleeps 1ms of fake time before its first operation
	SleepMask uint32 `json:"sleep_mask"`
	// Twin: a second, independent channel (capacity TwinCap) with one producer
	// that sends two values and closes, and one consumer that drains to null.
	// Values of the two channels must never mix.
	// L2 only: values are arrays (origami arrays are handles in every context,
	// also through plain assignment, so the sender does not touch them after
	// send), and/or all coroutines are spawned from inside another coroutine.
	ArrayPayload bool `json:"array_payload,omitempty"`
	// Payload: "" strings, "int" unique integers, "float" unique non-integral floats,
	// "loopint" the counter variable of the producer's for loop (L2 only)
	Payload string `json:"payload,omitempty"`
	MutOp   string `json:"mut_op,omitempty"`
	// CloneDrop (script level): everybody uses a `clone` of the channel object and the handle `new` returned is
	// dropped; every GCEvery-th operation the fault "the collector runs now" is injected (verifsim.CollectNow). A
	// channel is closed by close() only, never by the lifetime of one of its handles.
	// CallForm (script level): how the channel's methods are called: "" directly; "fcc" through first-class callable
	// closures ($c->send(...)); "cuf" through call_user_func([$c, "send"], …); "dyn" through a method name held in a
	// variable. All calls of a run go through ONE helper function per method, i.e. one call site sees every channel object.
	CallForm  string `json:"call_form,omitempty"`
	CloneDrop bool   `json:"clone_and_drop,omitempty"`
	GCEvery   int    `json:"gc_every,omitempty"` // payload "mutint": how the producer updates its variable after each send
	// Nulls (script level): producer 0 also sends the value null, before each of its messages with an even index.
	// null is a value like any other: it is delivered once, in order; a receiver cannot tell it from "closed and
	// drained", the model can (the send is recorded as "null:p0-<k>", the receive as null).
	Nulls bool `json:"null_payloads,omitempty"`
	// CapForm (L2 only): how the constructor argument is written: "" int literal, "none", "neg", "str", "float"
	CapForm string `json:"cap_form,omitempty"`
	// SharedProd (L2 only, string payloads): all producers are executions of ONE closure value
	SharedProd bool `json:"shared_producer_closure,omitempty"`
	Nested     bool `json:"nested_spawn,omitempty"`
	Twin       bool `json:"twin,omitempty"`
	TwinCap    int  `json:"twin_cap,omitempty"`
}

func gen(r *verifsim.Rng, tier string) (any, hx.Sched) {
	w := &W{Level: "L1", Cap: r.Intn(5)}
	if r.Intn(8) == 0 {
		w.Level = "L2"
	}
	np := 1 + r.Intn(3)
	maxSends := 3
	// swarm: now and then unusual sizes (large buffers, long streams, many senders)
	if r.Intn(8) == 0 {
		w.Cap = verifsim.Pick(r, []int{5, 7, 8, 9, 15, 16, 17, 32, 64})
	}
	if r.Intn(8) == 0 {
		maxSends = verifsim.Pick(r, []int{6, 10, 20})
	}
	if r.Intn(10) == 0 {
		np = 4 + r.Intn(3)
	}
	if r.Intn(50) == 0 {
		// huge: thousands of values buffered at once in a very large buffer (the
		// consumer sleeps first), capacities around and between powers of two
		w.Level = "L1"
		w.Cap = verifsim.Pick(r, []int{1000, 1024, 1025, 1500, 2047, 2048, 3000, 4097, 5000, 70000})
		n := verifsim.Pick(r, []int{1030, 1100, 2100, 4200})
		w.Producers = []int{n}
		if r.Intn(3) == 0 {
			w.Producers = []int{n / 2, n / 2}
		}
		w.Consumers = []int{-1}
		w.Closers, w.CloseAfter = 1, true
		w.SleepMask = 1 << uint(len(w.Producers)) // the consumer naps while the buffer fills
		if r.Intn(2) == 0 {
			// a first consumer takes a few values at once and leaves: the backlog then builds up
			// in a buffer whose read position is no longer at its start
			w.Consumers = []int{1 + r.Intn(40), -1}
			w.SleepMask = 1 << uint(len(w.Producers)+1) // only the draining consumer naps
		}
		s := hx.SwarmSched(r, focus)
		s.MeanGap = verifsim.Pick(r, []int64{30, 100, 1000})
		s.MaxSteps = 1000000
		return w, s
	}
	if r.Intn(25) == 0 {
		// a long stream: state that only builds up after hundreds of operations
		w.Level = "L1"
		np = 1 + r.Intn(2)
		maxSends = 0
		for i := 0; i < np; i++ {
			w.Producers = append(w.Producers, verifsim.Pick(r, []int{130, 260, 300, 520}))
		}
		w.Consumers = append(w.Consumers, -1)
		if r.Intn(2) == 0 {
			w.Consumers = append(w.Consumers, -1)
		}
		w.Closers, w.CloseAfter = 1, true
		w.Cap = verifsim.Pick(r, []int{0, 1, 3, 8, 64, 128})
		s := hx.SwarmSched(r, focus)
		s.MeanGap = verifsim.Pick(r, []int64{10, 30, 100})
		s.MaxSteps = 400000
		if r.Intn(3) == 0 {
			// the same long stream at script level: send() and receive() are each ONE source
			// location executed hundreds of times (loop-written producers, while-loop consumers)
			w.Level = "L2"
			for i := range w.Producers {
				w.Producers[i] = verifsim.Pick(r, []int{130, 300})
			}
			switch r.Intn(3) {
			case 0:
				w.Payload = "loopint"
			case 1:
				w.SharedProd = true
			default:
				w.Payload, w.MutOp = "mutint", verifsim.Pick(r, []string{"add1", "pluseq3", "preinc", "postinc", "postdec", "sub1"})
			}
			s.MeanGap = verifsim.Pick(r, []int64{1000, 10000, 100000})
			s.FocusWeight = verifsim.Pick(r, []int32{10, 100})
			s.MaxSteps = 4000000
		}
		return w, s
	}
	for i := 0; i < np && maxSends > 0; i++ {
		w.Producers = append(w.Producers, 1+r.Intn(maxSends))
	}
	nc := r.Intn(4)
	if np > 3 && r.Intn(2) == 0 {
		nc = 4 + r.Intn(3)
	}
	for i := 0; i < nc; i++ {
		if r.Intn(3) == 0 {
			w.Consumers = append(w.Consumers, -1)
		} else {
			w.Consumers = append(w.Consumers, 1+r.Intn(4))
		}
	}
	w.Closers = verifsim.Pick(r, []int{0, 1, 1, 1, 2})
	w.CloseAfter = r.Intn(2) == 0
	w.Observers = verifsim.Pick(r, []int{0, 0, 1})
	if r.Intn(4) == 0 {
		w.SleepMask = uint32(r.Uint64())
	}
	if r.Intn(4) == 0 {
		w.Twin, w.TwinCap = true, r.Intn(3)
	}
	s := hx.SwarmSched(r, focus)
	if w.Level == "L2" {
		w.ArrayPayload = r.Intn(3) == 0
		w.Nested = r.Intn(4) == 0
		if !w.ArrayPayload {
			w.Payload = verifsim.Pick(r, []string{"", "", "int", "float", "loopint", "numstr", "obj", "keyed", "mutint"})
		}
		if w.Payload == "mutint" {
			w.MutOp = verifsim.Pick(r, mutOps)
		}
		w.SharedProd = !w.ArrayPayload && w.Payload == "" && r.Intn(4) == 0
		w.Nulls = !w.SharedProd && w.Payload != "loopint" && w.Payload != "mutint" && len(w.Producers) > 0 && r.Intn(6) == 0
		if r.Intn(10) == 0 {
			w.CloneDrop, w.GCEvery = true, verifsim.Pick(r, []int{1, 2, 3, 7})
		}
		if r.Intn(6) == 0 {
			w.CallForm = verifsim.Pick(r, []string{"fcc", "fcc", "dyn"}) // ("cuf" exists but is not generated: see DESIGN §7.3, call_user_func on a native object)
		}
		if r.Intn(8) == 0 {
			// other constructor forms: no argument, a negative number (a string or float argument is a type error)
			// (the class treats everything but a non-negative int as "unbuffered")
			w.CapForm = verifsim.Pick(r, []string{"none", "neg"})
		}
		// the interpreter passes thousands of yield points per operation:
		// keep preemptions sparse outside the focus files
		s.MeanGap = verifsim.Pick(r, []int64{30, 100, 300, 1000, 3000})
		s.FocusWeight = verifsim.Pick(r, []int32{10, 100, 1000})
		s.MaxSteps = 400000
	}
	return w, s
}

func decode(raw json.RawMessage) (any, error) {
	w := &W{}
	err := json.Unmarshal(raw, w)
	return w, err
}

func shrink(x any) []any {
	w := x.(*W)
	var out []any
	cp := func() *W {
		c := *w
		c.Producers = append([]int{}, w.Producers...)
		c.Consumers = append([]int{}, w.Consumers...)
		return &c
	}
	for i := range w.Producers {
		if len(w.Producers) > 1 {
			c := cp()
			c.Producers = append(c.Producers[:i], c.Producers[i+1:]...)
			out = append(out, c)
		}
		if w.Producers[i] > 1 {
			c := cp()
			c.Producers[i]--
			out = append(out, c)
		}
	}
	for i := range w.Consumers {
		c := cp()
		c.Consumers = append(c.Consumers[:i], c.Consumers[i+1:]...)
		out = append(out, c)
		if w.Consumers[i] > 1 {
			c := cp()
			c.Consumers[i]--
			out = append(out, c)
		}
	}
	if w.Closers > 0 {
		c := cp()
		c.Closers--
		out = append(out, c)
	}
	if w.Observers > 0 {
		c := cp()
		c.Observers = 0
		out = append(out, c)
	}
	if w.SleepMask != 0 {
		c := cp()
		c.SleepMask = 0
		out = append(out, c)
	}
	if w.Cap > 0 {
		c := cp()
		c.Cap--
		out = append(out, c)
	}
	if w.Twin {
		c := cp()
		c.Twin = false
		out = append(out, c)
	}
	if w.ArrayPayload {
		c := cp()
		c.ArrayPayload = false
		out = append(out, c)
	}
	if w.SharedProd {
		c := cp()
		c.SharedProd = false
		out = append(out, c)
	}
	if w.Nulls {
		c := cp()
		c.Nulls = false
		out = append(out, c)
	}
	if w.CloneDrop {
		c := cp()
		c.CloneDrop = false
		out = append(out, c)
	}
	if w.CallForm != "" {
		c := cp()
		c.CallForm = ""
		out = append(out, c)
	}
	if w.Payload != "" {
		c := cp()
		c.Payload = ""
		out = append(out, c)
	}
	if w.Nested {
		c := cp()
		c.Nested = false
		out = append(out, c)
	}
	return out
}

// op is one entry of the recorded history.
type op struct {
	Task   int    `json:"task"`
	Kind   string `json:"op"` // send recv close isclosed len
	Arg    string `json:"arg,omitempty"`
	Ret    string `json:"ret"` // "true" "false" value "null" "pending"
	Call   int64  `json:"call"`
	Return int64  `json:"return"`
	Chan   int    `json:"chan,omitempty"`
}

type hist struct {
	ops [][]op // per task, so tasks never touch shared memory of the harness
}

func (h *hist) begin(task int, kind, arg string) int {
	h.ops[task] = append(h.ops[task], op{Task: task, Kind: kind, Arg: arg, Ret: "pending", Call: verifsim.Stamp(), Return: 1 << 60})
	return len(h.ops[task]) - 1
}

func (h *hist) end(task, i int, ret string) {
	h.ops[task][i].Ret = ret
	h.ops[task][i].Return = verifsim.Stamp()
}

func (h *hist) all() []op {
	var out []op
	for _, t := range h.ops {
		out = append(out, t...)
	}
	sort.Slice(out, func(i, j int) bool { return out[i].Call < out[j].Call })
	return out
}

func exec(t *testing.T, x any, s hx.Sched) *hx.Outcome {
	w := x.(*W)
	if w.Level == "L2" {
		return execScript(t, w, s)
	}
	o := &hx.Outcome{}
	ntasks := len(w.Producers) + len(w.Consumers) + w.Closers + w.Observers + 2
	h := &hist{ops: make([][]op, ntasks)}
	var ch *channel.Channel
	producersLeft := len(w.Producers)
	res := hx.RunBubble(t, s.Config(0), func(sim *verifsim.Sim) {
		// the Go channel must be created inside the bubble, or blocking on it is not durable
		ch = channel.NewChannel()
		ch.Construct(nil, data.NewIntValue(w.Cap))
		id := 0
		nap := func(id int) {
			if w.SleepMask&(1<<uint(id)) != 0 {
				time.Sleep(time.Millisecond)
				verifsim.Checkpoint()
			}
		}
		closer := func(id int) func() {
			return func() {
				nap(id)
				i := h.begin(id, "close", "")
				ch.Close()
				h.end(id, i, "ok")
			}
		}
		startClosers := func(base int) {
			for k := 0; k < w.Closers; k++ {
				sim.Spawn(fmt.Sprintf("X%d", k), closer(base+k))
			}
		}
		closerBase := len(w.Producers) + len(w.Consumers)
		for p, n := range w.Producers {
			p, n, id0 := p, n, id
			sim.Spawn(fmt.Sprintf("P%d", p), func() {
				nap(id0)
				for k := 0; k < n; k++ {
					v := fmt.Sprintf("p%d-%d", p, k)
					i := h.begin(id0, "send", v)
					ok := ch.Send(data.NewStringValue(v))
					h.end(id0, i, fmt.Sprint(ok))
				}
				producersLeft--
				if producersLeft == 0 && w.CloseAfter {
					startClosers(closerBase)
				}
			})
			id++
		}
		for c, n := range w.Consumers {
			c, n, id0 := c, n, id
			sim.Spawn(fmt.Sprintf("C%d", c), func() {
				nap(id0)
				for k := 0; n < 0 || k < n; k++ {
					i := h.begin(id0, "recv", "")
					v, ok := ch.Receive()
					if !ok {
						h.end(id0, i, "null")
						if n < 0 {
							return
						}
						continue
					}
					sv, _ := v.(*data.StringValue)
					if sv == nil {
						h.end(id0, i, fmt.Sprintf("?%v", v))
					} else {
						h.end(id0, i, sv.Value)
					}
				}
			})
			id++
		}
		if !w.CloseAfter {
			startClosers(closerBase)
		}
		if w.Twin {
			ch2 := channel.NewChannel()
			ch2.Construct(nil, data.NewIntValue(w.TwinCap))
			tp, tc := ntasks-2, ntasks-1
			sim.Spawn("TP", func() {
				for k := 0; k < 2; k++ {
					v := fmt.Sprintf("twin-%d", k)
					i := h.begin(tp, "send", v)
					ok := ch2.Send(data.NewStringValue(v))
					h.end(tp, i, fmt.Sprint(ok))
				}
				i := h.begin(tp, "close", "")
				ch2.Close()
				h.end(tp, i, "ok")
			})
			sim.Spawn("TC", func() {
				for {
					i := h.begin(tc, "recv", "")
					v, ok := ch2.Receive()
					if !ok {
						h.end(tc, i, "null")
						return
					}
					sv, _ := v.(*data.StringValue)
					if sv == nil {
						h.end(tc, i, fmt.Sprintf("?%v", v))
					} else {
						h.end(tc, i, sv.Value)
					}
				}
			})
		}
		id = closerBase + w.Closers
		for b := 0; b < w.Observers; b++ {
			id0 := id
			sim.Spawn(fmt.Sprintf("O%d", b), func() {
				for k := 0; k < 3; k++ {
					i := h.begin(id0, "isclosed", "")
					c := ch.IsClosed()
					h.end(id0, i, fmt.Sprint(c))
					i = h.begin(id0, "len", "")
					l := ch.Len()
					_ = ch.Cap()
					h.end(id0, i, fmt.Sprint(l))
				}
			})
			id++
		}
	})
	o.Res = res
	evaluateAll(o, w, h.all(), res, ntasks)
	return o
}

// evaluateAll splits the history by channel (the twin channel's tasks are the
// last two) and applies the oracles to each channel separately.
func evaluateAll(o *hx.Outcome, w *W, all []op, res *verifsim.Result, ntasks int) {
	var main, twin []op
	for _, p := range all {
		if w.Twin && p.Task >= ntasks-2 {
			twin = append(twin, p)
		} else {
			main = append(main, p)
		}
	}
	evaluate(o, w, main, res)
	if w.Twin {
		hash, sample, nt := o.Hash, o.Sample, o.NonTrivial
		tw := &W{Level: w.Level, Cap: w.TwinCap, Producers: []int{2}, Consumers: []int{-1}}
		evaluate(o, tw, twin, res)
		var ts []string
		for _, p := range twin {
			ts = append(ts, fmt.Sprintf("%d:%s(%s)=%s@%d-%d", p.Task, p.Kind, p.Arg, p.Ret, p.Call, p.Return))
		}
		o.Hash = verifsim.Mix(hash, o.Hash)
		o.NonTrivial = nt
		if sm, ok := sample.(map[string]any); ok {
			sm["twin_history"] = ts
		}
		o.Sample = sample
		o.Probe("runs_with_two_channels", 1)
	}
}

// evaluate applies the C09 oracles to a recorded history.
func evaluate(o *hx.Outcome, w *W, ops []op, res *verifsim.Result) {
	hs := make([]string, 0, len(ops))
	for _, p := range ops {
		hs = append(hs, fmt.Sprintf("%d:%s(%s)=%s@%d-%d", p.Task, p.Kind, p.Arg, p.Ret, p.Call, p.Return))
	}
	o.Hash = verifsim.Mix(hx.HashResult(res), hx.HashStrings(hs...))
	o.Sample = map[string]any{"workload": w, "history": hs, "outcome": res.Outcome, "trace_head": res.TraceStrings(40)}
	o.NonTrivial = res.FocusPreempts > 0 || res.Switches > 2

	// 1. crash
	for _, p := range res.Panics {
		o.Violate(hx.PanicSig("C09", p), fmt.Sprintf("task %s panicked: %s", p.Task, p.Value))
	}
	if res.Outcome == verifsim.OutDiverged {
		return
	}
	// 2. conservation
	sent := map[string]bool{}
	attempted := map[string]bool{}
	recv := map[string]int{}
	closedObserved, closeReturned := false, false
	var closeRet int64 = 1 << 60
	// null payloads: sends attempted / acknowledged / still pending, and nulls received
	nullTry, nullSent, nullPending, nullRecv := 0, 0, 0, 0
	for _, p := range ops {
		if p.Kind == "send" && strings.HasPrefix(p.Arg, "null:") {
			nullTry++
			if p.Ret == "true" {
				nullSent++
			}
			if p.Ret == "pending" {
				nullPending++
			}
		}
		if p.Kind == "recv" && p.Ret == "null" {
			nullRecv++
		}
	}
	if nullTry > 0 {
		o.Probe("runs_with_null_payloads", 1)
	}
	for _, p := range ops {
		switch p.Kind {
		case "send":
			attempted[p.Arg] = true
			if p.Ret == "true" {
				sent[p.Arg] = true
			}
			if p.Ret == "false" {
				closedObserved = true
			}
		case "recv":
			if p.Ret == "null" {
				// (more nulls received than ever sent: at least one of them means "closed and drained")
				if nullRecv > nullTry {
					closedObserved = true
				}
			} else if p.Ret != "pending" {
				recv[p.Ret]++
			}
		case "close":
			if p.Ret == "ok" {
				closeReturned = true
				if p.Return < closeRet {
					closeRet = p.Return
				}
			}
		case "isclosed":
			if p.Ret == "true" {
				closedObserved = true
			}
		}
	}
	for v, n := range recv {
		if n > 1 {
			o.Violate("C09/duplicate-delivery", fmt.Sprintf("value %s received %d times", v, n))
		}
		if !attempted[v] {
			o.Violate("C09/received-unsent", fmt.Sprintf("value %q was received but never sent", v))
		}
	}
	// a send that reported failure must not be delivered
	for _, p := range ops {
		if p.Kind == "send" && p.Ret == "false" && recv[p.Arg] > 0 {
			o.Violate("C09/failed-send-delivered", fmt.Sprintf("send(%s) reported failure but the value was received", p.Arg))
		}
	}
	// send/receive that starts after close() returned must report closed
	for _, p := range ops {
		if p.Kind == "send" && p.Call > closeRet && p.Ret == "true" {
			o.Violate("C09/send-after-close-succeeded", fmt.Sprintf("send(%s) invoked after close() returned reported success", p.Arg))
		}
		if p.Kind == "isclosed" && p.Call > closeRet && p.Ret == "false" {
			o.Violate("C09/isclosed-false-after-close", "isClosed() invoked after close() returned said false")
		}
	}
	// 2b. per-sender order as seen by ONE receiver: its own receives are
	// sequential, so it must never get value k of a sender after value k+j of the
	// same sender (sound for any number of consumers; covers histories too long
	// for the linearizability checker)
	lastSeen := map[string]int{} // "receiverTask|sender" -> highest index received
	for _, p := range ops {
		if p.Kind != "recv" || p.Ret == "pending" || p.Ret == "null" {
			continue
		}
		i := strings.LastIndexByte(p.Ret, '-')
		if i < 0 {
			continue
		}
		idx := 0
		if _, err := fmt.Sscan(p.Ret[i+1:], &idx); err != nil {
			continue
		}
		key := fmt.Sprintf("%d|%s", p.Task, p.Ret[:i])
		if prev, ok := lastSeen[key]; ok && idx < prev {
			o.Violate("C09/out-of-order-per-sender", fmt.Sprintf("receiver task %d got %s after %s-%d: values of one sender out of order", p.Task, p.Ret, p.Ret[:i], prev))
		}
		if idx > lastSeen[key] || lastSeen[key] == 0 {
			lastSeen[key] = idx
		}
	}
	// 3. linearizability against the channel model
	if nullPending > 0 {
		o.Inconclusive++ // whether a pending send(null) took effect cannot be read off the receives
	} else if len(res.Panics) == 0 {
		switch checkLinearizable(ops, closedObserved) {
		case porcupine.Illegal:
			o.Violate("C09/not-linearizable", "history has no sequential explanation: "+strings.Join(hs, " "))
		case porcupine.Unknown:
			o.Inconclusive++
		}
	}
	// 4. liveness at final quiescence (no faults are in flight any more)
	if res.Outcome == verifsim.OutStepLimit {
		if w.Level == "L1" {
			o.Violate("C09/livelock", fmt.Sprintf("run did not finish within %d scheduling steps", res.Steps))
		} else {
			o.Inconclusive++ // the interpreter needs many steps; budget exhaustion is not a verdict
		}
	}
	if len(res.Panics) == 0 && res.Outcome == verifsim.OutDeadlock {
		queued := 0
		for v := range sent {
			if recv[v] == 0 && !strings.HasPrefix(v, "null:") {
				queued++
			}
		}
		if nullSent > nullRecv {
			queued += nullSent - nullRecv
		}
		pendingRecv, pendingSend := 0, 0
		for _, p := range ops {
			if p.Ret == "pending" {
				switch p.Kind {
				case "recv":
					pendingRecv++
				case "send":
					pendingSend++
				case "close":
					o.Violate("C09/close-blocked", "close() never returned")
				}
			}
		}
		if pendingRecv > 0 && closeReturned {
			o.Violate("C09/lost-wakeup/receive-after-close", "a receive is still blocked although the channel was closed")
		}
		if pendingRecv > 0 && queued > 0 {
			o.Violate("C09/lost-wakeup/receive-with-data", fmt.Sprintf("a receive is still blocked although %d sent values were never received", queued))
		}
		if pendingRecv > 0 && pendingSend > 0 {
			o.Violate("C09/lost-wakeup/send-and-receive-both-blocked", "a send and a receive are blocked on the same channel")
		}
		if pendingSend > 0 && closeReturned {
			o.Violate("C09/lost-wakeup/send-after-close", "a send is still blocked although the channel was closed")
		}
		if pendingSend > 0 && queued < w.Cap && w.CapForm == "" {
			o.Violate("C09/lost-wakeup/send-with-room", fmt.Sprintf("a send is still blocked although only %d of %d buffer slots hold undelivered values", queued, w.Cap))
		}
		for _, b := range res.Blocked {
			if b.State == "lockwait" {
				o.Violate("C09/deadlock/lock", fmt.Sprintf("task %s waits forever for a lock at %s", b.Task, b.Site))
			}
		}
	}
	// if the channel was closed and the consumers drained until null: equality
	if len(res.Panics) == 0 && res.Outcome == verifsim.OutDone && closeReturned {
		drained := false
		for _, p := range ops {
			if p.Kind == "recv" && p.Ret == "null" && nullRecv > nullTry {
				drained = true
			}
		}
		if drained {
			for v := range sent {
				if recv[v] == 0 && !strings.HasPrefix(v, "null:") {
					o.Violate("C09/lost-value", fmt.Sprintf("send(%s) reported success, the channel was closed and drained to null, but the value was never received", v))
				}
			}
		}
	}
	// probes
	for _, p := range ops {
		if p.Kind == "close" {
			for _, q := range ops {
				if q.Kind == "send" && q.Call < p.Return && p.Call < q.Return {
					o.Probe("close_overlaps_send", 1)
				}
				if q.Kind == "recv" && q.Call < p.Return && p.Call < q.Return {
					o.Probe("close_overlaps_receive", 1)
				}
				if q.Kind == "close" && q.Task != p.Task && q.Call < p.Return && p.Call < q.Return {
					o.Probe("close_overlaps_close", 1)
				}
			}
			o.Fault("close", 1)
		}
	}
	if w.Closers > 1 {
		o.Fault("double_close", 1)
	}
	if w.SleepMask != 0 {
		o.Fault("sleep_jitter", 1)
	}
}

// --- porcupine model -------------------------------------------------------

type chIn struct {
	kind   string
	sender int
	val    string
}

// state: closed flag + per-sender queues, encoded as a string so == compares
type chState struct {
	closed bool
	q      string // "sender:val,val;sender:val"
}

func parseQ(q string) map[int][]string {
	m := map[int][]string{}
	if q == "" {
		return m
	}
	for _, part := range strings.Split(q, ";") {
		var s int
		a, b, _ := strings.Cut(part, ":")
		fmt.Sscan(a, &s)
		m[s] = strings.Split(b, ",")
	}
	return m
}

func fmtQ(m map[int][]string) string {
	var keys []int
	for k, v := range m {
		if len(v) > 0 {
			keys = append(keys, k)
		}
	}
	sort.Ints(keys)
	var parts []string
	for _, k := range keys {
		parts = append(parts, fmt.Sprintf("%d:%s", k, strings.Join(m[k], ",")))
	}
	return strings.Join(parts, ";")
}

var chanModel = porcupine.Model{
	Init: func() interface{} { return chState{} },
	Step: func(state, input, output interface{}) (bool, interface{}) {
		st := state.(chState)
		in := input.(chIn)
		out := output.(string)
		switch in.kind {
		case "send":
			if out == "true" {
				if st.closed {
					return false, st
				}
				m := parseQ(st.q)
				m[in.sender] = append(m[in.sender], in.val)
				return true, chState{st.closed, fmtQ(m)}
			}
			return st.closed, st
		case "recv":
			if out == "null" {
				if st.closed && st.q == "" {
					return true, st
				}
				// a null payload at the head of its sender's queue (only one sender sends nulls)
				m := parseQ(st.q)
				for s, q := range m {
					if len(q) > 0 && strings.HasPrefix(q[0], "null:") {
						m[s] = q[1:]
						return true, chState{st.closed, fmtQ(m)}
					}
				}
				return false, st
			}
			m := parseQ(st.q)
			for s, q := range m {
				if len(q) > 0 && q[0] == out {
					m[s] = q[1:]
					return true, chState{st.closed, fmtQ(m)}
				}
			}
			return false, st
		case "close":
			return true, chState{true, st.q}
		case "isclosed":
			return (out == "true") == st.closed, st
		}
		return true, st
	},
	Equal: func(a, b interface{}) bool { return a.(chState) == b.(chState) },
}

func checkLinearizable(ops []op, closedObserved bool) porcupine.CheckResult {
	received := map[string]bool{}
	for _, p := range ops {
		if p.Kind == "recv" && p.Ret != "pending" && p.Ret != "null" {
			received[p.Ret] = true
		}
	}
	var h []porcupine.Operation
	for _, p := range ops {
		in := chIn{kind: p.Kind, sender: p.Task, val: p.Arg}
		out := p.Ret
		if p.Ret == "pending" {
			switch {
			case p.Kind == "send" && received[p.Arg]:
				out = "true" // took effect: somebody received it
			case p.Kind == "close" && closedObserved:
				out = "ok"
			default:
				continue // no visible effect
			}
		}
		if p.Kind == "len" {
			continue
		}
		h = append(h, porcupine.Operation{ClientId: p.Task, Input: in, Output: out, Call: p.Call, Return: p.Return})
	}
	if len(h) > 64 {
		return porcupine.Unknown
	}
	return porcupine.CheckOperationsTimeout(chanModel, h, 2*time.Second)
}

var prop = &hx.Prop{
	ID: "C09", Gen: gen, Decode: decode, Focus: focus, Exec: exec, Shrink: shrink,
	Components: map[string]string{
		"std/channel Channel (Send/Receive/Close/IsClosed/Len/Cap)": "real (instrumented copy of /repo)",
		"Go chan, runtime channel wake-ups":                         "real",
		"goroutine scheduling":                                      "simulated (seeded scheduler, one task at a time)",
		"clock / sleep":                                             "simulated (synctest fake clock)",
		"spawn + interpreter (level L2)":                            "real",
	},
}

func TestWorker(t *testing.T) { hx.Main(t, prop) }
