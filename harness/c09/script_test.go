package c09

import (
	"fmt"
	"regexp"
	"strconv"
	"strings"
	"testing"

	"github.com/php-any/origami/data"
	"github.com/php-any/origami/verifharness/hx"
	"github.com/php-any/origami/verifsim"
)

// script builds the level-L2 program: the same workload as L1, but expressed
// as an origami script that spawns producers, consumers, closers and observers
// over `new Channel(cap)`. Operations are reported through the registered Go
// functions __b(task, kind, arg) / __e(task, ret), never through a second channel.
func script(w *W) string {
	src := script0(w)
	if w.Payload == "obj" { // classes are registered at parse time: the declaration can follow its uses
		src += "class Msg { public $id; public function __construct($id) { $this->id = $id; } }\n"
	}
	if w.Payload == "keyed" {
		// keyed records (array literals with string keys, copies handed out by ArrayObject): the consumer
		// reports keys AND values
		src = strings.ReplaceAll(src, "$v = $ch->receive();\n    __e(", "$v = $ch->receive();\n    if ($v !== null) { $v = Show::of($v); }\n    __e(")
		src = strings.ReplaceAll(src, "$v = $nc->receive();\n    __e(", "$v = $nc->receive();\n    if ($v !== null) { $v = Show::of($v); }\n    __e(")
		src += "class Show { public static function of($a) { $s = \"\"; foreach ($a as $k => $x) { $s .= $k . \"=\" . $x . \";\"; } return $s; } }\n"
	}
	if w.CallForm != "" {
		// every send/receive/close/isClosed/len of the run goes through one helper per method (declared first: a
		// function exists from the moment its declaration has run)
		src = callRe.ReplaceAllString(src, "__m_$2($1, ")
		src = strings.ReplaceAll(src, ", )", ")")
		src = strings.Replace(src, "<?php\n", "<?php\n"+callHelpers[w.CallForm], 1)
	}
	return src
}

func script0(w *W) string {
	var b strings.Builder
	b.WriteString("<?php\n")
	switch w.CapForm {
	case "none":
		b.WriteString("$ch = new Channel();\n")
	case "neg":
		fmt.Fprintf(&b, "$ch = new Channel(-%d);\n", w.Cap+1)
	case "str":
		fmt.Fprintf(&b, "$ch = new Channel(\"%d\");\n", w.Cap)
	case "float":
		fmt.Fprintf(&b, "$ch = new Channel(%d.0);\n", w.Cap)
	default:
		fmt.Fprintf(&b, "$ch = new Channel(%d);\n", w.Cap)
	}
	if w.CloneDrop {
		// (one line: the nested-spawn wrapper keeps the first line outside the outer coroutine)
		first := strings.TrimSuffix(strings.TrimPrefix(b.String(), "<?php\n"), "\n")
		b.Reset()
		b.WriteString("<?php\n" + strings.Replace(first, "$ch = ", "$ch0 = ", 1) + " $ch = clone $ch0; $ch0 = null;\n")
	}
	id := 0
	nap := func(id int) string {
		if w.SleepMask&(1<<uint(id)) != 0 {
			return "  sleep(1);\n"
		}
		return ""
	}
	closerBase := len(w.Producers) + len(w.Consumers)
	closers := func(indent string) string {
		var c strings.Builder
		for k := 0; k < w.Closers; k++ {
			fmt.Fprintf(&c, "%sspawn(function() use ($ch) {\n%s%s  __b(%d, \"close\", \"\");\n%s  $ch->close();\n%s  __e(%d, \"ok\");\n%s});\n",
				indent, nap(closerBase+k), indent, closerBase+k, indent, indent, closerBase+k, indent)
		}
		return c.String()
	}
	if w.SharedProd {
		// ONE closure value, spawned once per producer: every execution has its own locals
		b.WriteString("$prod = function() use ($ch) {\n  $me = __claim();\n  $n = __count($me);\n  for ($k = 0; $k < $n; $k++) {\n    $lab = \"p\" . $me . \"-\" . $k;\n    __b($me, \"send\", $lab);\n    $r = $ch->send($lab);\n    __e($me, $r);\n  }\n")
		if w.CloseAfter && w.Closers > 0 {
			fmt.Fprintf(&b, "  if (__producer_done()) {\n%s  }\n", closers("    "))
		}
		b.WriteString("};\n")
		for range w.Producers {
			b.WriteString("spawn($prod);\n")
			id++
		}
	}
	for p, n := range w.Producers {
		if w.SharedProd {
			break
		}
		fmt.Fprintf(&b, "spawn(function() use ($ch) {\n%s", nap(id))
		if w.Payload == "mutint" && !w.ArrayPayload {
			// the payload is a variable the producer sends and THEN updates, by one of several operator forms: what was
			// sent is the value at the time of the send, whatever the sender does to its variable afterwards
			fmt.Fprintf(&b, "  $v = %d;\n  for ($k = 0; $k < %d; $k++) {\n    __b(%d, \"send\", \"p%d-\" . $k);\n    $r = $ch->send($v);\n    __e(%d, $r);\n    %s;\n  }\n", mutStart(w.MutOp, p), n, id, p, id, mutStmt[w.MutOp])
			n = 0
		}
		if w.Payload == "loopint" && !w.ArrayPayload {
			// the most natural producer: the loop counter itself is the payload
			base := 1000 * (p + 1)
			fmt.Fprintf(&b, "  for ($i = %d; $i < %d; $i++) {\n    __b(%d, \"send\", \"p%d-\" . ($i - %d));\n    $r = $ch->send($i);\n    __e(%d, $r);\n  }\n", base, base+n, id, p, base, id)
			n = 0
		}
		for k := 0; k < n; k++ {
			if w.Nulls && p == 0 && k%2 == 0 {
				fmt.Fprintf(&b, "  __b(%d, \"send\", \"null:p%d-%d\");\n  $r = $ch->send(null);\n  __e(%d, $r);\n", id, p, k, id)
			}
			if w.ArrayPayload {
				fmt.Fprintf(&b, "  $a = [\"p%d\", \"%d\"];\n  __b(%d, \"send\", \"p%d-%d\");\n  $r = $ch->send($a);\n  __e(%d, $r);\n", p, k, id, p, k, id)
				continue
			}
			switch w.Payload {
			case "int": // the value is the number itself; it is recorded as "p<i>-<k>" through __pv
				fmt.Fprintf(&b, "  __b(%d, \"send\", \"p%d-%d\");\n  $r = $ch->send(%d);\n  __e(%d, $r);\n", id, p, k, 1000*(p+1)+k, id)
				continue
			case "keyed":
				if (p+k)%2 == 0 {
					fmt.Fprintf(&b, "  $a = [\"id\" => \"p%d-%d\", \"k\" => %d];\n", p, k, k)
				} else {
					fmt.Fprintf(&b, "  $ao = new ArrayObject([\"id\" => \"p%d-%d\", \"k\" => %d]);\n  $a = $ao->getArrayCopy();\n", p, k, k)
				}
				fmt.Fprintf(&b, "  __b(%d, \"send\", \"p%d-%d\");\n  $r = $ch->send($a);\n  __e(%d, $r);\n", id, p, k, id)
				continue
			case "numstr": // numeric strings with leading zeros must arrive as the strings they are
				fmt.Fprintf(&b, "  __b(%d, \"send\", \"p%d-%d\");\n  $r = $ch->send(\"000%d\");\n  __e(%d, $r);\n", id, p, k, 1000*(p+1)+k, id)
				continue
			case "obj":
				fmt.Fprintf(&b, "  $m = new Msg(\"p%d-%d\");\n  __b(%d, \"send\", \"p%d-%d\");\n  $r = $ch->send($m);\n  __e(%d, $r);\n", p, k, id, p, k, id)
				continue
			case "float":
				fmt.Fprintf(&b, "  __b(%d, \"send\", \"p%d-%d\");\n  $r = $ch->send(%d.5);\n  __e(%d, $r);\n", id, p, k, 1000*(p+1)+k, id)
				continue
			}
			fmt.Fprintf(&b, "  __b(%d, \"send\", \"p%d-%d\");\n  $r = $ch->send(\"p%d-%d\");\n  __e(%d, $r);\n", id, p, k, p, k, id)
		}
		if w.CloseAfter && w.Closers > 0 {
			fmt.Fprintf(&b, "  if (__producer_done()) {\n%s  }\n", closers("    "))
		}
		b.WriteString("});\n")
		id++
	}
	for _, n := range w.Consumers {
		fmt.Fprintf(&b, "spawn(function() use ($ch) {\n%s", nap(id))
		if n < 0 {
			fmt.Fprintf(&b, "  while (true) {\n    __b(%d, \"recv\", \"\");\n    $v = $ch->receive();\n    __e(%d, $v);\n    if ($v === null) { break; }\n  }\n", id, id)
		} else {
			fmt.Fprintf(&b, "  for ($i = 0; $i < %d; $i++) {\n    __b(%d, \"recv\", \"\");\n    $v = $ch->receive();\n    __e(%d, $v);\n  }\n", n, id, id)
		}
		b.WriteString("});\n")
		id++
	}
	if !w.CloseAfter {
		b.WriteString(closers(""))
	}
	id = closerBase + w.Closers
	for o := 0; o < w.Observers; o++ {
		fmt.Fprintf(&b, "spawn(function() use ($ch) {\n  for ($i = 0; $i < 3; $i++) {\n    __b(%d, \"isclosed\", \"\");\n    $c = $ch->isClosed();\n    __e(%d, $c);\n    __b(%d, \"len\", \"\");\n    $l = $ch->len();\n    $k = $ch->cap();\n    __e(%d, $l);\n  }\n});\n", id, id, id, id)
		id++
	}
	if w.Twin {
		tp, tc := id, id+1
		_ = tc
		fmt.Fprintf(&b, "$ch2 = new Channel(%d);\n", w.TwinCap)
		fmt.Fprintf(&b, "spawn(function() use ($ch2) {\n")
		for k := 0; k < 2; k++ {
			fmt.Fprintf(&b, "  __b(%d, \"send\", \"twin-%d\");\n  $r = $ch2->send(\"twin-%d\");\n  __e(%d, $r);\n", tp, k, k, tp)
		}
		fmt.Fprintf(&b, "  __b(%d, \"close\", \"\");\n  $ch2->close();\n  __e(%d, \"ok\");\n});\n", tp, tp)
		fmt.Fprintf(&b, "spawn(function() use ($ch2) {\n  while (true) {\n    __b(%d, \"recv\", \"\");\n    $v = $ch2->receive();\n    __e(%d, $v);\n    if ($v === null) { break; }\n  }\n});\n", tp+1, tp+1)
	}
	if w.Nested {
		// everything is spawned from inside one spawned coroutine
		body := b.String()
		head := "<?php\n"
		body = strings.TrimPrefix(body, head)
		first, rest, _ := strings.Cut(body, "\n") // the `$ch = new Channel(n);` line stays outside
		// (a closure nested in a closure cannot `use` a variable the outer one
		// itself captured — an interpreter limitation outside C09 — so the outer
		// coroutine copies the channel into locals first)
		rest = strings.ReplaceAll(rest, "use ($ch)", "use ($nc)")
		rest = strings.ReplaceAll(rest, "use ($ch2)", "use ($nc2)")
		rest = strings.ReplaceAll(rest, "$ch->", "$nc->")
		rest = strings.ReplaceAll(rest, "$ch2->", "$nc2->")
		twin := ""
		if strings.Contains(rest, "$ch2 = new Channel") {
			// the twin channel is created inside the outer coroutine
			twin = "  $nc2 = $ch2;\n"
			i := strings.Index(rest, "$ch2 = new Channel")
			j := i + strings.Index(rest[i:], "\n") + 1
			rest = rest[:j] + twin + rest[j:]
		}
		return head + first + "\nspawn(function() use ($ch) {\n  $nc = $ch;\n" + rest + "});\n"
	}
	return b.String()
}

func execScript(t *testing.T, w *W, s hx.Sched) *hx.Outcome {
	o := &hx.Outcome{}
	ntasks := len(w.Producers) + len(w.Consumers) + w.Closers + w.Observers + 2
	h := &hist{ops: make([][]op, ntasks)}
	cur := make([]int, ntasks)
	src := script(w)
	producersLeft := len(w.Producers)
	nOps, gcFaults := 0, int64(0)
	var env *hx.Env
	var mainCtl string
	res := hx.RunBubble(t, s.Config(0), func(sim *verifsim.Sim) {
		env = hx.NewEnv()
		restore := env.Capture()
		_ = restore
		env.VM.AddFunc(&hx.GoFunc{Name: "__b", Params: []string{"task", "kind", "arg"}, Fn: func(ctx data.Context, a []data.Value) (data.GetValue, data.Control) {
			id := atoi(hx.ValStr(a[0]))
			if w.CloneDrop && w.GCEvery > 0 {
				nOps++
				if nOps%w.GCEvery == 0 {
					verifsim.CollectNow() // fault: the collector runs now (cleanups of unreachable objects become tasks)
					gcFaults++
				}
			}
			cur[id] = h.begin(id, hx.ValStr(a[1]), hx.ValStr(a[2]))
			return data.NewNullValue(), nil
		}})
		env.VM.AddFunc(&hx.GoFunc{Name: "__e", Params: []string{"task", "ret"}, Fn: func(ctx data.Context, a []data.Value) (data.GetValue, data.Control) {
			id := atoi(hx.ValStr(a[0]))
			ret := hx.ValStr(a[1])
			if arr, ok := a[1].(*data.ArrayValue); ok {
				var parts []string
				for _, v := range arr.ToValueList() {
					parts = append(parts, hx.ValStr(v))
				}
				ret = strings.Join(parts, "-")
			}
			switch v := a[1].(type) {
			case *data.ClassValue:
				if w.Payload == "obj" {
					if zv, ctl := v.GetPropertyZVal("id"); ctl == nil && zv != nil && zv.Value != nil {
						ret = hx.ValStr(zv.Value)
					}
				}
			case *data.StringValue:
				if w.Payload == "keyed" {
					// "id=p<p>-<k>;k=<k>;" stands for the record p<p>-<k>; anything else is reported as it is
					if m := keyedRe.FindStringSubmatch(v.Value); m != nil && m[2] == m[3] {
						ret = "p" + m[1] + "-" + m[2]
					}
				}
				if w.Payload == "numstr" && len(v.Value) >= 7 && strings.HasPrefix(v.Value, "000") {
					if n, err := strconv.Atoi(v.Value); err == nil {
						ret = fmt.Sprintf("p%d-%d", n/1000-1, n%1000)
					}
				}
			case *data.IntValue:
				if w.Payload == "mutint" {
					if lab, ok := mutLabels(w)[v.Value]; ok {
						ret = lab
					}
					break
				}
				// an integer payload 1000*(p+1)+k stands for "p<p>-<k>"
				if (w.Payload == "int" || w.Payload == "loopint") && v.Value >= 1000 {
					ret = fmt.Sprintf("p%d-%d", v.Value/1000-1, v.Value%1000)
				} else if w.Payload == "float" || w.Payload == "numstr" {
					ret = fmt.Sprintf("int(%d)-instead-of-%s", v.Value, w.Payload)
				}
			case *data.FloatValue:
				if w.Payload == "float" {
					n := int(v.Value)
					if float64(n)+0.5 == v.Value && n >= 1000 {
						ret = fmt.Sprintf("p%d-%d", n/1000-1, n%1000)
					}
				}
			}
			h.end(id, cur[id], ret)
			return data.NewNullValue(), nil
		}})
		claimed := 0
		env.VM.AddFunc(&hx.GoFunc{Name: "__claim", Params: []string{}, Fn: func(ctx data.Context, a []data.Value) (data.GetValue, data.Control) {
			claimed++
			return data.NewIntValue(claimed - 1), nil
		}})
		env.VM.AddFunc(&hx.GoFunc{Name: "__count", Params: []string{"me"}, Fn: func(ctx data.Context, a []data.Value) (data.GetValue, data.Control) {
			me := atoi(hx.ValStr(a[0]))
			if me < 0 || me >= len(w.Producers) {
				return data.NewIntValue(0), nil
			}
			return data.NewIntValue(w.Producers[me]), nil
		}})
		env.VM.AddFunc(&hx.GoFunc{Name: "__producer_done", Params: []string{}, Fn: func(ctx data.Context, a []data.Value) (data.GetValue, data.Control) {
			producersLeft--
			return data.NewBoolValue(producersLeft == 0), nil
		}})
		sim.Spawn("main", func() {
			_, _, ctl := env.Run(src, "/verif/c09.php")
			if ctl != nil {
				mainCtl = hx.CtlStr(ctl)
			}
		})
	})
	data.ResetOutputWriter()
	o.Res = res
	evaluateAll(o, w, h.all(), res, ntasks)
	if gcFaults > 0 {
		o.Fault("collector_runs_now", gcFaults)
	}
	if sm, ok := o.Sample.(map[string]any); ok {
		sm["script"] = src
	}
	if mainCtl != "" {
		o.Violate("C09/script-error", "main script ended with: "+mainCtl)
	}
	for _, th := range env.Throws {
		o.Violate("C09/uncaught-throw", "a spawned closure ended with an uncaught throw: "+th)
	}
	o.Hash = verifsim.Mix(o.Hash, hx.HashStrings(env.Throws...))
	return o
}

var keyedRe = regexp.MustCompile(`^id=p(\d+)-(\d+);k=(\d+);$`)

func atoi(s string) int {
	n := 0
	fmt.Sscan(s, &n)
	return n
}

// mutint payloads: the statement that updates the sender's variable after each send, the start value per producer
// (chosen so that all values of a run are distinct) and the value -> label table of a workload.
var mutStmt = map[string]string{
	"mul2": "$v = $v * 2", "twice": "$v = 2 * $v", "muleq2": "$v *= 2", "add1": "$v = $v + 1", "pluseq3": "$v += 3",
	"preinc": "++$v", "postinc": "$v++", "postdec": "$v--", "sub1": "$v = $v - 1", "mulvar": "$two = 2; $v = $v * $two",
}

var mutOps = []string{"mul2", "twice", "muleq2", "add1", "pluseq3", "preinc", "postinc", "postdec", "sub1", "mulvar"}

func mutMul(op string) bool { return op == "mul2" || op == "twice" || op == "muleq2" || op == "mulvar" }

func mutStart(op string, p int) int {
	switch {
	case mutMul(op):
		return 1001 + 2*p // odd and distinct: start*2^k never collide
	case op == "postdec" || op == "sub1":
		return 100000*(p+1) + 50000
	}
	return 100000 * (p + 1)
}

func mutNext(op string, v int) int {
	switch {
	case mutMul(op):
		return v * 2
	case op == "pluseq3":
		return v + 3
	case op == "postdec" || op == "sub1":
		return v - 1
	}
	return v + 1
}

var mutCacheW *W
var mutCache map[int]string

func mutLabels(w *W) map[int]string {
	if mutCacheW == w {
		return mutCache
	}
	m := map[int]string{}
	for p, n := range w.Producers {
		v := mutStart(w.MutOp, p)
		for k := 0; k < n; k++ {
			m[v] = fmt.Sprintf("p%d-%d", p, k)
			v = mutNext(w.MutOp, v)
		}
	}
	mutCacheW, mutCache = w, m
	return m
}

// "$c->send(X)" becomes "__m_send($c, X)"; "$c->receive()" becomes "__m_receive($c, )" and then "__m_receive($c)"
var callRe = regexp.MustCompile(`(\$(?:ch|ch2|nc|nc2))->(send|receive|close|isClosed|len)\(`)

var callHelpers = map[string]string{
	"fcc": `function __m_send($c, $v) { $f = $c->send(...); return $f($v); }
function __m_receive($c) { $f = $c->receive(...); return $f(); }
function __m_close($c) { $f = $c->close(...); return $f(); }
function __m_isClosed($c) { $f = $c->isClosed(...); return $f(); }
function __m_len($c) { $f = $c->len(...); return $f(); }
`,
	"cuf": `function __m_send($c, $v) { return call_user_func([$c, "send"], $v); }
function __m_receive($c) { return call_user_func([$c, "receive"]); }
function __m_close($c) { return call_user_func([$c, "close"]); }
function __m_isClosed($c) { return call_user_func([$c, "isClosed"]); }
function __m_len($c) { return call_user_func([$c, "len"]); }
`,
	"dyn": `function __m_send($c, $v) { $m = "send"; return $c->$m($v); }
function __m_receive($c) { $m = "receive"; return $c->$m(); }
function __m_close($c) { $m = "close"; return $c->$m(); }
function __m_isClosed($c) { $m = "isClosed"; return $c->$m(); }
function __m_len($c) { $m = "len"; return $c->$m(); }
`,
}
