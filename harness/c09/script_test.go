package c09

import (
	"testing"

	"github.com/php-any/origami/verifharness/hx"
)

func execScript(t *testing.T, w *W, s hx.Sched) *hx.Outcome {
	c := *w
	c.Level = "L1"
	return exec(t, &c, s)
}
