// Package hx is the part of the verification harness shared by all property
// workers: job handling, the bubble wrapper, minimisation, replay records and
// the worker's summary. It is copied into the scratch module next to the
// instrumented repository.
package hx

import (
	"encoding/json"
	"fmt"
	"hash/fnv"
	"os"
	"runtime"
	"sort"
	"strings"
	"testing"
	"testing/synctest"
	"time"

	"github.com/php-any/origami/verifsim"
)

// Sched is everything that decides the schedule of one run. It is part of the
// replay record.
type Sched struct {
	Seed        uint64              `json:"seed"`
	MeanGap     int64               `json:"mean_gap"`
	FocusWeight int32               `json:"focus_weight"`
	Focus       []string            `json:"focus,omitempty"`
	Stick       float64             `json:"stick"`
	PCT         int                 `json:"pct,omitempty"`
	MaxSteps    int64               `json:"max_steps"`
	MapMode     int                 `json:"map_mode"`
	MapSeed     uint64              `json:"map_seed"`
	Replay      []verifsim.Decision `json:"tape,omitempty"`
	Strict      bool                `json:"strict,omitempty"`
}

func (s Sched) Config(mode verifsim.Mode) verifsim.Config {
	return verifsim.Config{
		Mode: mode, Seed: s.Seed, Replay: s.Replay, Strict: s.Strict,
		MeanGap: s.MeanGap, FocusWeight: s.FocusWeight, Focus: s.Focus, Stick: s.Stick, PCT: s.PCT,
		MaxSteps: s.MaxSteps, MapMode: s.MapMode, MapSeed: s.MapSeed,
	}
}

// SwarmSched draws a schedule policy for one run.
func SwarmSched(r *verifsim.Rng, focus []string) Sched {
	s := Sched{Seed: r.Uint64(), Focus: focus, MaxSteps: 20000}
	s.MeanGap = verifsim.Pick(r, []int64{1, 2, 3, 10, 30, 100, 300, 3000})
	s.FocusWeight = verifsim.Pick(r, []int32{1, 10, 100, 1000})
	s.Stick = verifsim.Pick(r, []float64{0, 0.3, 0.7, 0.9})
	if r.Intn(5) == 0 {
		s.PCT = 1 + r.Intn(3)
	}
	s.MapMode = verifsim.Pick(r, []int{0, 0, 1, 2})
	s.MapSeed = r.Uint64()
	return s
}

type Violation struct {
	Sig    string `json:"sig"`
	Detail string `json:"detail"`
}

// Outcome is what one executed run reports back.
type Outcome struct {
	Violations   []Violation
	Res          *verifsim.Result
	Probes       map[string]int64
	Faults       map[string]int64 // fault kind -> times it actually fired
	Sample       any              // a printable form of the case (history etc.)
	Hash         uint64           // hash of everything observable: determinism self-test compares it
	NonTrivial   bool
	Inconclusive int
	Discarded    bool // generator self-check rejected the case
}

func (o *Outcome) Violate(sig, detail string) {
	for _, v := range o.Violations {
		if v.Sig == sig {
			return
		}
	}
	o.Violations = append(o.Violations, Violation{sig, detail})
}

func (o *Outcome) Has(sig string) bool {
	for _, v := range o.Violations {
		if v.Sig == sig {
			return true
		}
	}
	return false
}

func (o *Outcome) Probe(name string, n int64) {
	if o.Probes == nil {
		o.Probes = map[string]int64{}
	}
	o.Probes[name] += n
}

func (o *Outcome) Fault(name string, n int64) {
	if o.Faults == nil {
		o.Faults = map[string]int64{}
	}
	o.Faults[name] += n
}

// Prop is one property's harness.
type Prop struct {
	ID string
	// Gen produces the explicit workload for one run (JSON-marshalable) and
	// the schedule policy, drawing only from r.
	Gen func(r *verifsim.Rng, tier string) (any, Sched)
	// Decode turns a recorded workload back into the harness's type.
	Decode func(raw json.RawMessage) (any, error)
	// Exec runs the workload under the schedule and evaluates all oracles.
	Exec func(t *testing.T, w any, s Sched) *Outcome
	// Shrink proposes strictly smaller workloads.
	Shrink func(w any) []any
	// Real/Simulated components for evidence.
	Components map[string]string
	// NoInProcessMinimise: signature needs a fresh process (race detector).
	FreshProcessOnly bool
	// Focus files (for the coverage report)
	Focus []string
}

// Record is a replay file / violation record.
type Record struct {
	Property  string          `json:"property"`
	BaseSeed  uint64          `json:"verif_seed"`
	Run       int64           `json:"run"`
	Workload  json.RawMessage `json:"workload"`
	Sched     Sched           `json:"sched"`
	Signature string          `json:"expected_signature"`
	Detail    string          `json:"detail"`
	Trace     []string        `json:"trace,omitempty"`
	Minimised bool            `json:"minimised"`
	MinExecs  int             `json:"minimise_executions,omitempty"`
	OrigSteps int             `json:"original_schedule_len,omitempty"`
	// The case as the search found it, kept next to its minimised form: minimisation runs inside the worker process
	// that found the violation, whose history (whatever earlier cases left in the code under test) a fresh process
	// does not have. The driver falls back to the original when the minimised form does not reproduce there.
	OrigWorkload json.RawMessage `json:"original_workload,omitempty"`
	OrigSched    *Sched          `json:"original_sched,omitempty"`
	OrigDetail   string          `json:"original_detail,omitempty"`
}

// Job is what the driver asks a worker to do.
type Job struct {
	Mode      string   `json:"mode"` // search | replay
	Tier      string   `json:"tier"`
	Seed      uint64   `json:"seed"`
	From      int64    `json:"from"`
	To        int64    `json:"to"`
	Out       string   `json:"out"`
	File      string   `json:"file,omitempty"` // replay
	DetFrom   int64    `json:"det_from"`       // runs in [DetFrom,DetTo) report their hash
	DetTo     int64    `json:"det_to"`
	Deadline  int64    `json:"deadline_s"`           // soft real-time budget for the range
	RecordAll bool     `json:"record_all,omitempty"` // emit a full record for every run (race confirmation)
	Repeat    int      `json:"repeat,omitempty"`     // execute every run this many extra times (the race detector's shadow memory is lossy)
	NoRecords bool     `json:"no_records,omitempty"` // count violations but neither record nor minimise them
	Reverse   bool     `json:"reverse,omitempty"`    // run the range backwards (history-independence probe)
	Known     []string `json:"known,omitempty"`      // signatures not worth minimising again
	MaxViol   int      `json:"max_violation_records"`
}

type Summary struct {
	Type         string            `json:"type"`
	Runs         int64             `json:"runs"`
	NonTrivial   int64             `json:"nontrivial"`
	Discarded    int64             `json:"discarded"`
	Inconclusive int64             `json:"inconclusive"`
	Steps        int64             `json:"steps"`
	Yields       int64             `json:"yields"`
	Switches     int64             `json:"switches"`
	FocusPre     int64             `json:"focus_preemptions"`
	SimTimeNs    int64             `json:"sim_time_ns"`
	Outcomes     map[string]int64  `json:"outcomes"`
	Probes       map[string]int64  `json:"probes"`
	Faults       map[string]int64  `json:"faults"`
	SigCounts    map[string]int64  `json:"signature_counts"`
	Interleave   []string          `json:"interleavings"`
	DetHashes    map[string]string `json:"det_hashes"`
	Samples      []any             `json:"samples"`
	MapCalls     int64             `json:"map_calls"`
	MapPermuted  int64             `json:"map_permuted"`
	WallS        float64           `json:"wall_s"`
	GoMaxProcs   int               `json:"gomaxprocs"`
	SelfCheckBad int64             `json:"self_check_mismatch"`
	Components   map[string]string `json:"components"`
	Completed    bool              `json:"completed"`
	// NextRun < job.To: the worker stopped early to shed leaked state (goroutines
	// of deadlocked bubbles cannot be killed); the driver continues in a fresh process.
	NextRun int64 `json:"next_run"`
	// yield sites at which some task was actually parked and another task then ran
	PreemptSites []int32 `json:"preempt_sites"`
	FocusSites   int     `json:"focus_sites_total"`
	YieldSites   int     `json:"yield_sites_total"`
}

// RunBubble executes one simulated run inside a synctest bubble.
func RunBubble(t *testing.T, cfg verifsim.Config, setup func(s *verifsim.Sim)) (res *verifsim.Result) {
	cfg.Mode = verifsim.ModeBubble
	cfg.Wait = synctest.Wait
	defer func() {
		// a run that ends with tasks still blocked makes the bubble report a
		// deadlock when its main goroutine exits; the scheduler has already
		// classified the run, so the panic carries no information.
		if r := recover(); r != nil {
			msg := fmt.Sprint(r)
			if !strings.Contains(msg, "deadlock") {
				panic(r)
			}
		}
	}()
	synctest.Test(t, func(t *testing.T) {
		res = verifsim.Run(cfg, setup)
	})
	return res
}

// RunSpin executes one simulated run with the spin back end (race builds).
func RunSpin(cfg verifsim.Config, setup func(s *verifsim.Sim)) *verifsim.Result {
	cfg.Mode = verifsim.ModeSpin
	return verifsim.Run(cfg, setup)
}

func HashStrings(parts ...string) uint64 {
	h := fnv.New64a()
	for _, p := range parts {
		h.Write([]byte(p))
		h.Write([]byte{0})
	}
	return h.Sum64()
}

func HashResult(res *verifsim.Result) uint64 {
	if res == nil {
		return 0
	}
	h := fnv.New64a()
	fmt.Fprintf(h, "%s|%d|", res.Outcome, res.Steps)
	for _, d := range res.Decisions {
		fmt.Fprintf(h, "%d:%d,", d.Task, d.Gap)
	}
	for _, e := range res.Trace {
		fmt.Fprintf(h, "%d@%d/%d,", e.Task, e.Site, e.Kind)
	}
	for _, p := range res.Panics {
		fmt.Fprintf(h, "P%s:%s,", p.Task, p.Value)
	}
	for _, b := range res.Blocked {
		fmt.Fprintf(h, "B%s:%s:%s,", b.Task, b.State, b.Site)
	}
	return h.Sum64()
}

// PanicSig builds a stable signature from a recovered panic: message plus the
// innermost origami frame (harness and simulator frames skipped).
func PanicSig(prop string, p verifsim.PanicInfo) string {
	fn := "?"
	lines := strings.Split(p.Stack, "\n")
	for _, l := range lines {
		if strings.HasPrefix(l, "\t") {
			continue // file:line of the previous frame
		}
		l = strings.TrimSpace(l)
		if !strings.HasPrefix(l, "github.com/php-any/origami/") {
			continue
		}
		if strings.Contains(l, "/verifsim.") || strings.Contains(l, "/verifharness/") {
			continue
		}
		if i := strings.LastIndex(l, "("); i > 0 {
			l = l[:i]
		}
		fn = strings.TrimPrefix(l, "github.com/php-any/origami/")
		break
	}
	msg := p.Value
	if len(msg) > 120 {
		msg = msg[:120]
	}
	return fmt.Sprintf("%s/panic/%s@%s", prop, normalise(msg), fn)
}

func normalise(s string) string {
	// strip addresses and numbers that vary between runs
	var b strings.Builder
	for i := 0; i < len(s); i++ {
		c := s[i]
		if c == '0' && i+1 < len(s) && s[i+1] == 'x' {
			b.WriteString("0x…")
			i += 2
			for i < len(s) && strings.IndexByte("0123456789abcdef", s[i]) >= 0 {
				i++
			}
			i--
			continue
		}
		if c == '\n' {
			c = ' '
		}
		b.WriteByte(c)
	}
	return b.String()
}

// Main is the worker entry point called from each property's TestWorker.
func Main(t *testing.T, p *Prop) {
	if d := os.Getenv("VERIF_DEBUG_RUN"); d != "" {
		InitProcess()
		var run int64
		var base uint64 = 1
		fmt.Sscanf(d, "%d,%d", &run, &base)
		DebugRun(t, p, run, base)
		return
	}
	jobFile := os.Getenv("VERIF_JOB")
	if jobFile == "" {
		t.Skip("VERIF_JOB not set: this test binary is a verification worker")
	}
	InitProcess() // must happen outside any bubble
	raw, err := os.ReadFile(jobFile)
	if err != nil {
		fatal("read job: %v", err)
	}
	var job Job
	if err := json.Unmarshal(raw, &job); err != nil {
		fatal("parse job: %v", err)
	}
	out, err := os.Create(job.Out)
	if err != nil {
		fatal("create out: %v", err)
	}
	defer out.Close()
	emit := func(v any) {
		b, err := json.Marshal(v)
		if err != nil {
			fatal("marshal: %v", err)
		}
		out.Write(append(b, '\n'))
	}
	// real-time watchdog: a stuck simulation is tooling trouble (exit 2), never a violation
	watch := make(chan struct{}, 1)
	go func() {
		last := time.Now()
		for {
			select {
			case <-watch:
				last = time.Now()
			case <-time.After(5 * time.Second):
				if time.Since(last) > 120*time.Second {
					fmt.Fprintf(os.Stderr, "WATCHDOG: run made no progress for 120s\n")
					buf := make([]byte, 1<<20)
					buf = buf[:runtime.Stack(buf, true)]
					os.Stderr.Write(buf)
					os.Exit(2)
				}
			}
		}
	}()
	tick := func() {
		select {
		case watch <- struct{}{}:
		default:
		}
	}
	switch job.Mode {
	case "search":
		search(t, p, &job, emit, tick)
	case "replay":
		replay(t, p, &job, emit)
	default:
		fatal("unknown mode %q", job.Mode)
	}
}

func fatal(f string, a ...any) {
	fmt.Fprintf(os.Stderr, "WORKER-ERROR: "+f+"\n", a...)
	os.Exit(2)
}

func search(t *testing.T, p *Prop, job *Job, emit func(any), tick func()) {
	t0 := time.Now()
	sum := &Summary{Type: "summary", Outcomes: map[string]int64{}, Probes: map[string]int64{}, Faults: map[string]int64{},
		SigCounts: map[string]int64{}, DetHashes: map[string]string{}, GoMaxProcs: runtime.GOMAXPROCS(0), Components: p.Components}
	inter := map[uint64]struct{}{}
	preempt := map[int32]struct{}{}
	known := map[string]bool{}
	for _, k := range job.Known {
		known[k] = true
	}
	recorded := map[string]int{}
	if job.MaxViol == 0 {
		job.MaxViol = 1
	}
	deadline := time.Time{}
	if job.Deadline > 0 {
		deadline = t0.Add(time.Duration(job.Deadline) * time.Second)
	}
	sum.NextRun = job.To
	var ms runtime.MemStats
	for n := job.From; n < job.To; n++ {
		if (n-job.From)%128 == 127 && !job.Reverse {
			runtime.ReadMemStats(&ms)
			if runtime.NumGoroutine() > 20000 || ms.HeapAlloc > 2<<30 {
				sum.NextRun = n
				break
			}
		}
		i := n
		if job.Reverse {
			i = job.To - 1 - (n - job.From)
		}
		if !deadline.IsZero() && time.Now().After(deadline) {
			break
		}
		tick()
		seed := verifsim.Mix(job.Seed, uint64(i))
		fmt.Fprintf(os.Stderr, "VERIF-BEGIN run=%d\n", i)
		w, s := p.Gen(verifsim.NewRng(seed), job.Tier)
		o := p.Exec(t, w, s)
		fmt.Fprintf(os.Stderr, "VERIF-END run=%d\n", i)
		sum.Runs++
		if o.Discarded {
			sum.Discarded++
			for k, v := range o.Probes { // why a case was discarded is reported too
				sum.Probes[k] += v
			}
			if sum.Discarded <= 2 && o.Sample != nil {
				b, _ := json.Marshal(o.Sample)
				fmt.Fprintf(os.Stderr, "VERIF-DISCARDED run=%d %s\n", i, b)
			}
			continue
		}
		sum.Inconclusive += int64(o.Inconclusive)
		if o.Res != nil {
			sum.Steps += o.Res.Steps
			sum.Yields += o.Res.Yields
			sum.Switches += o.Res.Switches
			sum.FocusPre += o.Res.FocusPreempts
			sum.SimTimeNs += int64(o.Res.SimTime)
			sum.Outcomes[o.Res.Outcome]++
			for k, e := range o.Res.Trace {
				if e.Site >= 0 && k+1 < len(o.Res.Trace) && o.Res.Trace[k+1].Task != e.Task && len(preempt) < 20000 {
					preempt[e.Site] = struct{}{}
				}
			}
			sum.MapCalls += o.Res.MapCalls
			sum.MapPermuted += o.Res.MapPermuted
			if o.NonTrivial {
				inter[verifsim.Mix(o.Res.SwitchSignature(), o.Hash)] = struct{}{}
			}
		} else if o.NonTrivial {
			inter[o.Hash] = struct{}{}
		}
		if o.NonTrivial {
			sum.NonTrivial++
		}
		for k, v := range o.Probes {
			sum.Probes[k] += v
		}
		for k, v := range o.Faults {
			sum.Faults[k] += v
		}
		// (a run that ended inconclusive — a timeout, a budget — has no observation to compare)
		if i >= job.DetFrom && i < job.DetTo && o.Inconclusive == 0 {
			sum.DetHashes[fmt.Sprint(i)] = fmt.Sprintf("%016x", o.Hash)
			// in-process repeat: the same seed must give the same run
			w2, s2 := p.Gen(verifsim.NewRng(seed), job.Tier)
			o2 := p.Exec(t, w2, s2)
			if o2.Hash != o.Hash && o2.Inconclusive == 0 {
				sum.SelfCheckBad++
				fmt.Fprintf(os.Stderr, "NONDETERMINISM run=%d hash %x vs %x\n", i, o.Hash, o2.Hash)
			}
		}
		if len(sum.Samples) < 3 && o.Sample != nil && (o.NonTrivial || i == job.To-1) {
			sum.Samples = append(sum.Samples, o.Sample)
		}
		for k := 0; k < job.Repeat; k++ {
			w2, s2 := p.Gen(verifsim.NewRng(seed), job.Tier)
			p.Exec(t, w2, s2)
		}
		if job.RecordAll {
			rec := &Record{Property: p.ID, BaseSeed: job.Seed, Run: i, Sched: s}
			rec.Workload, _ = json.Marshal(w)
			if o.Res != nil {
				rec.Sched.Replay = o.Res.Decisions
				rec.Trace = o.Res.TraceStrings(400)
			}
			emit(map[string]any{"type": "rundump", "record": rec})
		}
		for _, v := range o.Violations {
			sum.SigCounts[v.Sig]++
			if recorded[v.Sig] >= job.MaxViol || job.NoRecords {
				continue
			}
			recorded[v.Sig]++
			rec := &Record{Property: p.ID, BaseSeed: job.Seed, Run: i, Sched: s, Signature: v.Sig, Detail: v.Detail}
			rec.Workload, _ = json.Marshal(w)
			if o.Res != nil {
				rec.Sched.Replay = o.Res.Decisions
				rec.Trace = o.Res.TraceStrings(400)
				rec.OrigSteps = len(o.Res.Decisions)
			}
			if !p.FreshProcessOnly && !known[v.Sig] {
				tick()
				fmt.Fprintf(os.Stderr, "VERIF-BEGIN run=-1\n") // reports printed while minimising belong to no run
				Minimise(t, p, rec, w, tick)
				fmt.Fprintf(os.Stderr, "VERIF-END run=-1\n")
			}
			emit(map[string]any{"type": "violation", "record": rec})
		}
		// A run that ended with tasks abandoned INSIDE the code under test (parked at a yield or waiting for a lock when
		// the step budget ran out or a deadlock was declared) leaves goroutines behind that may hold process-wide locks
		// of that code for ever; a later case of this process would then block on them and look deadlocked. The rest
		// of the batch continues in a fresh process (tasks blocked in a real channel operation hold no locks).
		if o.Res != nil && !job.Reverse && abandonedInside(o.Res) {
			sum.NextRun = n + 1
			sum.Probes["worker_restarts_after_abandoned_tasks"]++
			break
		}
	}
	for k := range inter {
		sum.Interleave = append(sum.Interleave, fmt.Sprintf("%016x", k))
	}
	sort.Strings(sum.Interleave)
	for k := range preempt {
		sum.PreemptSites = append(sum.PreemptSites, k)
	}
	sort.Slice(sum.PreemptSites, func(i, j int) bool { return sum.PreemptSites[i] < sum.PreemptSites[j] })
	sum.YieldSites = len(verifsim.SiteFile)
	if p.Focus != nil {
		sum.FocusSites = verifsim.FocusSiteCount(p.Focus)
	}
	sum.WallS = time.Since(t0).Seconds()
	sum.Completed = true
	emit(sum)
}

func abandonedInside(res *verifsim.Result) bool {
	for _, b := range res.Blocked {
		if b.State == "parked" || b.State == "lockwait" || b.State == "condwait" {
			return true
		}
	}
	return false
}

func replay(t *testing.T, p *Prop, job *Job, emit func(any)) {
	raw, err := os.ReadFile(job.File)
	if err != nil {
		fatal("read replay: %v", err)
	}
	var rec Record
	if err := json.Unmarshal(raw, &rec); err != nil {
		fatal("parse replay: %v", err)
	}
	w, err := p.Decode(rec.Workload)
	if err != nil {
		fatal("decode workload: %v", err)
	}
	s := rec.Sched
	s.Strict = true
	fmt.Fprintf(os.Stderr, "VERIF-BEGIN run=%d\n", rec.Run)
	o := p.Exec(t, w, s)
	for k := 0; k < job.Repeat; k++ {
		p.Exec(t, w, s)
	}
	fmt.Fprintf(os.Stderr, "VERIF-END run=%d\n", rec.Run)
	res := map[string]any{"type": "replay", "expected": rec.Signature, "reproduced": o.Has(rec.Signature), "violations": o.Violations}
	if o.Res != nil {
		res["outcome"] = o.Res.Outcome
		res["trace"] = o.Res.TraceStrings(400)
	}
	emit(res)
}

// Minimise shrinks workload and schedule while the same signature persists.
func Minimise(t *testing.T, p *Prop, rec *Record, w any, tick func()) {
	sig := rec.Signature
	execs := 0
	start := time.Now()
	budgetOK := func() bool { return execs < 2000 && time.Since(start) < 60*time.Second }
	try := func(w any, s Sched) *Outcome {
		execs++
		tick()
		s.Strict = false
		if s.Replay == nil {
			s.Replay = []verifsim.Decision{}
		}
		return p.Exec(t, w, s)
	}
	s := rec.Sched
	origW, origS, origD := rec.Workload, rec.Sched, rec.Detail
	defer func() {
		if rec.Minimised {
			rec.OrigWorkload, rec.OrigSched, rec.OrigDetail = origW, &origS, origD
		}
	}()
	base := try(w, s)
	if !base.Has(sig) {
		rec.Detail += " [not reproducible under lenient replay: not minimised]"
		return
	}
	// 1. workload
	if p.Shrink != nil {
		progress := true
		for progress && budgetOK() {
			progress = false
			for _, cand := range p.Shrink(w) {
				if !budgetOK() {
					break
				}
				o := try(cand, s)
				if o.Has(sig) {
					w = cand
					if o.Res != nil {
						s.Replay = o.Res.Decisions
					}
					progress = true
					break
				}
			}
		}
	}
	// 2. schedule: ddmin over the decision tape
	tape := s.Replay
	n := 2
	for len(tape) > 1 && budgetOK() {
		chunk := (len(tape) + n - 1) / n
		reduced := false
		for i := 0; i < len(tape) && budgetOK(); i += chunk {
			end := i + chunk
			if end > len(tape) {
				end = len(tape)
			}
			cand := append(append([]verifsim.Decision{}, tape[:i]...), tape[end:]...)
			s2 := s
			s2.Replay = cand
			if o := try(w, s2); o.Has(sig) {
				tape = cand
				if n > 2 {
					n--
				}
				reduced = true
				break
			}
		}
		if !reduced {
			if chunk == 1 {
				break
			}
			n *= 2
			if n > len(tape) {
				n = len(tape)
			}
		}
	}
	s.Replay = tape
	// 3. normalise: record the decisions the lenient run actually made, check strictly
	o := try(w, s)
	if o.Has(sig) && o.Res != nil {
		s2 := s
		s2.Replay = o.Res.Decisions
		s2.Strict = true
		execs++
		o2 := p.Exec(t, w, s2)
		if o2.Has(sig) {
			rec.Workload, _ = json.Marshal(w)
			rec.Sched = s2
			rec.Sched.Strict = false
			rec.Trace = o2.Res.TraceStrings(400)
			for _, v := range o2.Violations {
				if v.Sig == sig {
					rec.Detail = v.Detail
				}
			}
			rec.Minimised = true
		}
	} else if o.Has(sig) {
		rec.Workload, _ = json.Marshal(w)
		rec.Minimised = true
	}
	rec.MinExecs = execs
}
