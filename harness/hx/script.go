package hx

import (
	"fmt"
	"strings"
	"sync"

	"github.com/php-any/origami/data"
	"github.com/php-any/origami/node"
	"github.com/php-any/origami/parser"
	"github.com/php-any/origami/runtime"
	"github.com/php-any/origami/std"
	netannotation "github.com/php-any/origami/std/net/annotation"
	nethttp "github.com/php-any/origami/std/net/http"
	"github.com/php-any/origami/std/net/websocket"
	"github.com/php-any/origami/std/php"
	"github.com/php-any/origami/std/system"
	"github.com/php-any/origami/verifsim"
)

var initOnce sync.Once

// InitProcess neutralises process-level side effects that must not happen
// inside a synctest bubble: std/signal.Load installs a goroutine blocked in
// signal.Notify behind a sync.Once; consume that Once here, outside any bubble.
func InitProcess() {
	initOnce.Do(func() {
		runtime.InstallShutdownSignalHandler(runtime.NewVM(parser.NewParser()))
		// Warm-up: lazily initialised process state (token tables behind a
		// sync.Once, regexp caches, …) must be in the same state for run 0 of a
		// fresh replay process as for run N of a search worker, or traces
		// would depend on process history.
		e := newEnv()
		restore := e.Capture()
		_, _, ctl := e.Run(WarmupScript, "/verif/warmup.php")
		restore()
		if ctl != nil {
			panic("verif warm-up script failed: " + ctlString(ctl))
		}
	})
}

// WarmupScript touches the interpreter features the workloads use.
var WarmupScript = `<?php
interface WI { public function f(); }
class WA implements WI { public $p = 1; public int $q = 2; public function f() { return $this->p + $this->q; } public static function s() { return "s"; } }
class WB extends WA { public function g($x) { return $x . "!"; } }
function wf($a, $b = 2) { return $a + $b; }
$o = new WB();
$arr = [1, "k" => "v", 3 => [1,2]];
foreach ($arr as $k => $v) { $z = $k; }
for ($i = 0; $i < 3; $i++) { $z = $i * 2; }
while ($i > 0) { $i--; }
$f = function($x) use ($o) { return $o->g($x); };
echo $f("a"), wf(1), WA::s(), $o->f(), "\n";
try { throw new Exception("x"); } catch (Exception $e) { echo $e->getMessage(); } finally { echo "f"; }
echo json_encode(["a" => 1, "b" => [true, null, 1.5, "s"]]), strlen("abc"), count($arr), "\n";
$j = json_decode('{"a":1,"b":[1,2]}', true);
if ($o instanceof WI && isset($arr["k"]) || empty($arr)) { echo "ok"; } else { echo "no"; }
switch ($i) { case 0: echo "zero"; break; default: echo "d"; }
$s = "x{$i}y" . 'z' . PHP_EOL;
$ch = new Channel(2); $ch->send("a"); $v = $ch->receive(); $ch->close(); $n = $ch->receive(); $c = $ch->isClosed(); $l = $ch->len();
echo $v === null ? "n" : "v", class_exists("WA") ? 1 : 0, function_exists("wf") ? 1 : 0;
`

// Env is one freshly created interpreter: parser + VM with the standard
// libraries loaded, output and uncaught throws captured.
type Env struct {
	P      *parser.Parser
	VM     *runtime.VM
	Out    *strings.Builder
	Throws []string
	Recs   []Rec
}

// Rec is something a script reported through __rec(tag, value).
type Rec struct {
	Task  string `json:"task"`
	Tag   string `json:"tag"`
	Val   string `json:"val"`
	Stamp int64  `json:"stamp"`
}

// GoFunc adapts a Go closure to data.FuncStmt so that scripts can call it.
type GoFunc struct {
	Name   string
	Params []string
	Fn     func(ctx data.Context, args []data.Value) (data.GetValue, data.Control)
}

func (f *GoFunc) Call(ctx data.Context) (data.GetValue, data.Control) {
	args := make([]data.Value, len(f.Params))
	for i := range f.Params {
		if v, ok := ctx.GetIndexValue(i); ok {
			args[i] = v
		}
	}
	return f.Fn(ctx, args)
}
func (f *GoFunc) GetName() string { return f.Name }
func (f *GoFunc) GetParams() []data.GetValue {
	out := make([]data.GetValue, len(f.Params))
	for i, p := range f.Params {
		out[i] = node.NewParameter(nil, p, i, node.NewNullLiteral(nil), nil)
	}
	return out
}
func (f *GoFunc) GetVariables() []data.Variable {
	out := make([]data.Variable, len(f.Params))
	for i, p := range f.Params {
		out[i] = node.NewVariable(nil, p, i, nil)
	}
	return out
}

// ValStr renders a script value for comparison.
func ValStr(v data.Value) string {
	if v == nil {
		return "<nil>"
	}
	switch x := v.(type) {
	case *data.NullValue:
		return "null"
	case *data.BoolValue:
		if x.Value {
			return "true"
		}
		return "false"
	}
	return v.AsString()
}

// NewEnv creates an interpreter the way the origami binary does
// (parser.NewParser, runtime.NewVM, std/php/http loaders).
func NewEnv() *Env {
	InitProcess()
	return newEnv()
}

func newEnv() *Env {
	e := &Env{Out: &strings.Builder{}}
	e.P = parser.NewParser()
	e.VM = runtime.NewVM(e.P).(*runtime.VM)
	std.Load(e.VM)
	php.Load(e.VM)
	nethttp.Load(e.VM)
	websocket.Load(e.VM)
	netannotation.Load(e.VM)
	system.Load(e.VM)
	e.VM.SetThrowControl(func(acl data.Control) {
		e.Throws = append(e.Throws, verifsim.TaskName()+": "+ctlString(acl))
	})
	e.VM.AddFunc(&GoFunc{Name: "__rec", Params: []string{"tag", "val"}, Fn: func(ctx data.Context, a []data.Value) (data.GetValue, data.Control) {
		e.Recs = append(e.Recs, Rec{Task: verifsim.TaskName(), Tag: ValStr(a[0]), Val: ValStr(a[1]), Stamp: verifsim.Stamp()})
		return data.NewNullValue(), nil
	}})
	e.VM.AddFunc(&GoFunc{Name: "__gate", Params: []string{}, Fn: func(ctx data.Context, a []data.Value) (data.GetValue, data.Control) {
		verifsim.Gate()
		return data.NewNullValue(), nil
	}})
	e.VM.AddFunc(&GoFunc{Name: "__stamp", Params: []string{}, Fn: func(ctx data.Context, a []data.Value) (data.GetValue, data.Control) {
		return data.NewIntValue(int(verifsim.Stamp())), nil
	}})
	return e
}

func ctlString(acl data.Control) (s string) {
	defer func() {
		if r := recover(); r != nil {
			s = fmt.Sprintf("<control %T>", acl)
		}
	}()
	if acl == nil {
		return ""
	}
	return acl.AsString()
}

// Capture routes script output (echo etc.) into e.Out; the previous writer is
// returned so the caller can restore it.
func (e *Env) Capture() func() {
	prev := data.WriteOutput
	data.WriteOutput = func(s string) { e.Out.WriteString(s) }
	return func() { data.WriteOutput = prev }
}

// Run parses and executes src on the base VM (like VM.LoadAndRun does for a
// file). Returns the control (uncaught throw etc.) if any.
func (e *Env) Run(src, path string) (data.Context, []data.Variable, data.Control) {
	p := e.P.Clone()
	prog, ctl := p.ParseString(src, path)
	if ctl != nil {
		return nil, nil, ctl
	}
	vars := p.GetVariables()
	ctx := e.VM.CreateContext(vars)
	_, ctl = prog.GetValue(ctx)
	return ctx, vars, ctl
}

// Var fetches a top-level script variable by name.
func Var(ctx data.Context, vars []data.Variable, name string) data.Value {
	for _, v := range vars {
		if v.GetName() == name {
			val, _ := ctx.GetIndexValue(v.GetIndex())
			return val
		}
	}
	return nil
}

// CtlStr is the printable form of a control (uncaught throw), "" for nil.
func CtlStr(acl data.Control) string { return ctlString(acl) }
