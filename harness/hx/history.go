package hx

import (
	"fmt"
	"sort"

	"github.com/php-any/origami/verifsim"
)

// HOp is one recorded operation: invoke/return stamped with the simulator's
// global event sequence number (never time).
type HOp struct {
	Task   int    `json:"task"`
	Kind   string `json:"op"`
	Arg    string `json:"arg,omitempty"`
	Ret    string `json:"ret"`
	Call   int64  `json:"call"`
	Return int64  `json:"return"`
}

const Pending = "pending"

// Hist keeps one slice per task so that tasks never share harness memory
// (important for the race back end: the harness must not add happens-before
// edges or races of its own).
type Hist struct{ ops [][]HOp }

func NewHist(tasks int) *Hist { return &Hist{ops: make([][]HOp, tasks)} }

func (h *Hist) Begin(task int, kind, arg string) int {
	h.ops[task] = append(h.ops[task], HOp{Task: task, Kind: kind, Arg: arg, Ret: Pending, Call: verifsim.Stamp(), Return: 1 << 60})
	return len(h.ops[task]) - 1
}

func (h *Hist) End(task, i int, ret string) {
	h.ops[task][i].Ret = ret
	h.ops[task][i].Return = verifsim.Stamp()
}

func (h *Hist) All() []HOp {
	var out []HOp
	for _, t := range h.ops {
		out = append(out, t...)
	}
	sort.Slice(out, func(i, j int) bool { return out[i].Call < out[j].Call })
	return out
}

func (o HOp) String() string {
	return fmt.Sprintf("%d:%s(%s)=%s@%d-%d", o.Task, o.Kind, o.Arg, o.Ret, o.Call, o.Return)
}
