package hx

import (
	"fmt"
	"os"
	"testing"

	"github.com/php-any/origami/verifsim"
)

// DebugRun (VERIF_DEBUG_RUN=<n>[,<seed>]) executes one run twice in this
// process and prints where the two traces first differ.
func DebugRun(t *testing.T, p *Prop, run int64, base uint64) {
	seed := verifsim.Mix(base, uint64(run))
	var traces [2][]string
	var hashes [2]uint64
	for k := 0; k < 2; k++ {
		w, s := p.Gen(verifsim.NewRng(seed), "quick")
		o := p.Exec(t, w, s)
		hashes[k] = o.Hash
		if o.Res != nil {
			traces[k] = o.Res.TraceStrings(0)
		}
		fmt.Fprintf(os.Stderr, "exec %d: hash %x outcome %v steps %d violations %v\n", k, o.Hash, o.Res.Outcome, o.Res.Steps, o.Violations)
	}
	for i := 0; i < len(traces[0]) || i < len(traces[1]); i++ {
		a, b := "<end>", "<end>"
		if i < len(traces[0]) {
			a = traces[0][i]
		}
		if i < len(traces[1]) {
			b = traces[1][i]
		}
		if a != b {
			fmt.Fprintf(os.Stderr, "first difference at step %d:\n  A: %s\n  B: %s\n", i, a, b)
			for j := i - 3; j < i+4; j++ {
				if j >= 0 && j < len(traces[0]) && j < len(traces[1]) {
					fmt.Fprintf(os.Stderr, "   %d  %-60s | %s\n", j, traces[0][j], traces[1][j])
				}
			}
			return
		}
	}
	fmt.Fprintln(os.Stderr, "traces identical")
}
