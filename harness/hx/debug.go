package hx

import (
	"encoding/json"
	"fmt"
	"os"
	"testing"

	"github.com/php-any/origami/verifsim"
)

// DebugRun (VERIF_DEBUG_RUN=<n>[,<seed>]) executes one run twice in this
// process and prints where the two traces first differ.
func DebugRun(t *testing.T, p *Prop, run int64, base uint64) {
	seed := verifsim.Mix(base, uint64(run))
	tier := os.Getenv("VERIF_DEBUG_TIER") // the generator's sizes depend on the tier
	if tier == "" {
		tier = "quick"
	}
	// VERIF_DEBUG_PRE=<from>-<to>: execute those runs first (process history), results ignored
	var from, to int64
	if n, _ := fmt.Sscanf(os.Getenv("VERIF_DEBUG_PRE"), "%d-%d", &from, &to); n == 2 {
		step := int64(1)
		if from > to {
			step = -1
		}
		for r := from; r != to+step; r += step {
			w, s := p.Gen(verifsim.NewRng(verifsim.Mix(base, uint64(r))), tier)
			p.Exec(t, w, s)
		}
	}
	var traces [2][]string
	var hashes [2]uint64
	for k := 0; k < 2; k++ {
		w, s := p.Gen(verifsim.NewRng(seed), tier)
		o := p.Exec(t, w, s)
		hashes[k] = o.Hash
		if o.Res != nil {
			traces[k] = o.Res.TraceStrings(0)
		}
		if o.Res == nil {
			fmt.Fprintf(os.Stderr, "exec %d: hash %x (no simulated run) violations %v discarded %v\n", k, o.Hash, o.Violations, o.Discarded)
		} else {
			fmt.Fprintf(os.Stderr, "exec %d: hash %x outcome %v steps %d violations %v blocked %v\n", k, o.Hash, o.Res.Outcome, o.Res.Steps, o.Violations, o.Res.Blocked)
		}
		if os.Getenv("VERIF_DEBUG_SAMPLE") != "" {
			b, _ := json.Marshal(o.Sample)
			fmt.Fprintf(os.Stderr, "sample %d: %s\n", k, b)
		}
	}
	for i := 0; i < len(traces[0]) || i < len(traces[1]); i++ {
		a, b := "<end>", "<end>"
		if i < len(traces[0]) {
			a = traces[0][i]
		}
		if i < len(traces[1]) {
			b = traces[1][i]
		}
		if a != b {
			fmt.Fprintf(os.Stderr, "first difference at step %d:\n  A: %s\n  B: %s\n", i, a, b)
			for j := i - 3; j < i+4; j++ {
				if j >= 0 && j < len(traces[0]) && j < len(traces[1]) {
					fmt.Fprintf(os.Stderr, "   %d  %-60s | %s\n", j, traces[0][j], traces[1][j])
				}
			}
			return
		}
	}
	fmt.Fprintln(os.Stderr, "traces identical")
}
