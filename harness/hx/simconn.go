package hx

import (
	"errors"
	"fmt"
	"net/http"
	"net/url"
	"sort"
	"strconv"
	"strings"

	"github.com/php-any/origami/data"
	"github.com/php-any/origami/verifsim"
)

// SimConn is the simulated connection behind a request: an
// http.ResponseWriter that records every header commit (with a snapshot of
// the header map at that instant) and every body write, and that can inject
// write errors. It stands in for net/http's conn/response.
type SimConn struct {
	H        http.Header
	Commits  []Commit // explicit WriteHeader calls, in order
	Implicit bool     // a body write arrived before any WriteHeader: status 200 committed implicitly
	ImplHdr  http.Header
	Body     strings.Builder
	Writes   int
	// fault injection
	FailWriteAt int  // 1-based index of the Write call that returns an error (0: never)
	Strict      bool // like net/http: refuse a body for 1xx/204/304
	Failed      int  // how many writes were failed
	Stall       bool // slow client: every Write is a scheduling point (the server task parks in it)
	written     int64
}

// declaredLength is the Content-Length that went out with the header block (-1: none), as net/http
// reads it at the commit: body bytes beyond it are refused with http.ErrContentLength
func (c *SimConn) declaredLength() int64 {
	v := c.SentHeader().Get("Content-Length")
	if v == "" {
		return -1
	}
	n, err := strconv.ParseInt(v, 10, 64)
	if err != nil || n < 0 {
		return -1
	}
	return n
}

type Commit struct {
	Code int
	Hdr  http.Header
}

func NewSimConn() *SimConn { return &SimConn{H: http.Header{}} }

func (c *SimConn) Header() http.Header { return c.H }

func (c *SimConn) WriteHeader(code int) {
	c.Commits = append(c.Commits, Commit{Code: code, Hdr: c.H.Clone()})
}

var ErrInjectedWrite = errors.New("verif: injected client write error")

func (c *SimConn) Write(p []byte) (int, error) {
	if c.Stall {
		verifsim.Gate()
	}
	c.Writes++
	if len(c.Commits) == 0 && !c.Implicit {
		c.Implicit = true
		c.ImplHdr = c.H.Clone()
	}
	if c.FailWriteAt > 0 && c.Writes >= c.FailWriteAt {
		c.Failed++
		return 0, ErrInjectedWrite
	}
	if c.Strict {
		st := c.Status()
		if st == 204 || st == 304 || (st >= 100 && st < 200) {
			if len(p) > 0 {
				c.Failed++
				return 0, http.ErrBodyNotAllowed
			}
			return 0, nil
		}
	}
	if dl := c.declaredLength(); dl >= 0 && c.written+int64(len(p)) > dl {
		c.Failed++
		return 0, http.ErrContentLength
	}
	c.written += int64(len(p))
	c.Body.Write(p)
	return len(p), nil
}

// Status is what the client sees: the first commit (later ones are ignored by
// a real connection), or the implicit 200.
func (c *SimConn) Status() int {
	if len(c.Commits) > 0 {
		return c.Commits[0].Code
	}
	return 200
}

// SentHeader is the header block that went on the wire.
func (c *SimConn) SentHeader() http.Header {
	if c.Implicit && (len(c.Commits) == 0) {
		return c.ImplHdr
	}
	if len(c.Commits) > 0 {
		if c.Implicit {
			// body write preceded the first explicit WriteHeader
			return c.ImplHdr
		}
		return c.Commits[0].Hdr
	}
	return c.H // never committed: sent at the end of the request
}

func (c *SimConn) CommitCodes() []int {
	var out []int
	for _, k := range c.Commits {
		out = append(out, k.Code)
	}
	return out
}

// ClientView is the header block as a client reads it: net/http writes the map's keys as they are, in sorted
// order, and the reader folds every spelling of a name into its canonical form, appending the values.
func ClientView(h http.Header) http.Header {
	keys := make([]string, 0, len(h))
	for k := range h {
		keys = append(keys, k)
	}
	sort.Strings(keys)
	out := http.Header{}
	for _, k := range keys {
		ck := http.CanonicalHeaderKey(k)
		out[ck] = append(out[ck], h[k]...)
	}
	return out
}

// HeaderString renders selected headers canonically.
func HeaderString(h http.Header) string {
	var keys []string
	for k := range h {
		keys = append(keys, k)
	}
	sort.Strings(keys)
	var b strings.Builder
	for _, k := range keys {
		fmt.Fprintf(&b, "%s=%s;", k, strings.Join(h[k], ","))
	}
	return b.String()
}

// NewRequest builds an in-memory request (no sockets).
func NewRequest(method, target string, form url.Values, cookies map[string]string, headers map[string]string) *http.Request {
	u, err := url.ParseRequestURI(target)
	if err != nil {
		panic(err)
	}
	var body *strings.Reader
	if form != nil {
		body = strings.NewReader(form.Encode())
	} else {
		body = strings.NewReader("")
	}
	r, err := http.NewRequest(method, u.String(), body)
	if err != nil {
		panic(err)
	}
	r.RequestURI = target
	r.Host = "sim.local"
	r.RemoteAddr = "10.0.0.1:1234"
	if form != nil {
		r.Header.Set("Content-Type", "application/x-www-form-urlencoded")
	}
	var cn []string
	for k := range cookies {
		cn = append(cn, k)
	}
	sort.Strings(cn)
	for _, k := range cn {
		r.AddCookie(&http.Cookie{Name: k, Value: cookies[k]})
	}
	var hn []string
	for k := range headers {
		hn = append(hn, k)
	}
	sort.Strings(hn)
	for _, k := range hn {
		r.Header.Set(k, headers[k])
	}
	return r
}

// MuxOf extracts the real *http.ServeMux from a script's Server object
// (exported GetSource() of the Server class).
func MuxOf(v data.Value) (*http.ServeMux, error) {
	type sourcer interface{ GetSource() any }
	cands := []any{v}
	if x, ok := v.(*data.ClassValue); ok {
		cands = append(cands, x.Class)
	}
	for _, c := range cands {
		if s, ok := c.(sourcer); ok {
			if m, ok := s.GetSource().(*http.ServeMux); ok {
				return m, nil
			}
		}
	}
	return nil, fmt.Errorf("value %T does not expose a *http.ServeMux", v)
}

// Serve runs one request through the mux, recovering a handler panic the way
// net/http's connection goroutine does (the panic aborts that request only).
func Serve(mux *http.ServeMux, conn http.ResponseWriter, r *http.Request) (panicked any) {
	defer func() {
		if rec := recover(); rec != nil {
			panicked = rec
		}
	}()
	mux.ServeHTTP(conn, r)
	return nil
}
