package c12

import (
	"encoding/json"
	"fmt"
	gohttp "net/http"
	"net/http/httptest"
	"os"
	"path/filepath"
	"reflect"
	"sort"
	"strings"
	"sync"
	"testing"

	"github.com/php-any/origami/data"
	"github.com/php-any/origami/node"
	"github.com/php-any/origami/runtime"
	nethttp "github.com/php-any/origami/std/net/http"
	"github.com/php-any/origami/verifharness/hx"
	"github.com/php-any/origami/verifsim"
)

var focus = []string{"runtime/vm_temp.go", "runtime/vm.go", "parser/class_parser.go", "parser/function_parser.go", "parser/interface_parser.go",
	"node/function.go", "node/new.go", "node/call.go"}

type Def struct {
	Kind string `json:"kind"` // class func iface
	Name string `json:"name"`
}

// Op is one step of a history over 1 base VM (vm 0) and up to 4 temporary VMs.
type Op struct {
	K          string `json:"k"`  // def obs shared discard
	VM         int    `json:"vm"` // 0 base, 1..4 temporary
	Defs       []Def  `json:"defs,omitempty"`
	Fault      string `json:"fault,omitempty"` // "", "throw" (snippet throws after its definitions), "parse" (syntax error after FaultAfter definitions)
	FaultAfter int    `json:"fault_after,omitempty"`
	// ViaFile (def): the snippet is a FILE loaded with LoadAndRun on the VM, the way a request file is; it also has
	// top-level variables ($app, $config) like every other such file, and (odd steps) declares its functions
	// conditionally, i.e. when the statement runs
	ViaFile bool `json:"via_file,omitempty"`
}

type W struct {
	Temps int  `json:"temps"`
	Ops   []Op `json:"ops"`
	// Conc: the temporary VMs are driven by concurrent tasks (one per VM),
	// base definitions happen before they start.
	Conc bool `json:"concurrent,omitempty"`
	// NoPrep: temporary VMs are used as NewTempVM returns them (no PrepareParse before the first lookup)
	NoPrep bool `json:"no_prepare_parse,omitempty"`
}

var fileSeq int

// Closures made on the base VM at boot and kept in static properties (hooks, container factories): their body
// declares a function when it RUNS. Whoever runs it declares it — on the VM of the code that calls the closure.
const hooksScript = `<?php
class Hooks { public static $direct; public static $cuf; public static $bound; public static $boundcall; }
Hooks::$direct = function() { function hooked_direct() { return "hd"; } return 1; };
Hooks::$cuf = function() { function hooked_cuf() { return "hc"; } return 1; };
Hooks::$bound = function() { function hooked_bound() { return "hb"; } return 1; };
Hooks::$boundcall = function() { function hooked_boundcall() { return "hbc"; } return 1; };
`

var hookForms = map[string]string{
	"direct":    "<?php\n$f = Hooks::$direct; $f();\n",
	"cuf":       "<?php\ncall_user_func(Hooks::$cuf);\n",
	"bound":     "<?php\n$f = Closure::bind(Hooks::$bound, null, Hooks::class); call_user_func($f);\n",
	"boundcall": "<?php\n$f = Hooks::$boundcall; $g = $f->bindTo(null, Hooks::class); $g();\n",
}

var hookFormNames = []string{"bound", "boundcall", "cuf", "direct"}

var classNames = []string{"A", "B", "C"}
var funcNames = []string{"fa", "fb", "fc"}
var ifaceNames = []string{"IA", "IB"}

// classes that can also be defined inside `namespace App;` (name "App\\A")
var nsNames = []string{"A", "B"}

// classes that exist only as files on the class path (namespace fx12): resolvable on demand from every VM
var loadables = []string{"fx12\\La", "fx12\\Lb", "fx12\\Ia"} // (Ia is an interface)

var fx12Once sync.Once

func fx12Dir() string {
	dir := filepath.Join(filepath.Dir(os.Args[0]), "c12fx")
	fx12Once.Do(func() {
		os.MkdirAll(dir, 0o755)
		for _, n := range []string{"La", "Lb", "Ia"} {
			p := filepath.Join(dir, n+".php")
			text := fmt.Sprintf("<?php\nnamespace fx12;\nclass %s {\n  public function tag() { return \"%s\"; }\n}\n", n, n)
			if n == "Ia" {
				text = "<?php\nnamespace fx12;\ninterface Ia {\n}\n"
			}
			if b, err := os.ReadFile(p); err == nil && string(b) == text {
				continue
			}
			tmp := fmt.Sprintf("%s.%d", p, os.Getpid())
			if err := os.WriteFile(tmp, []byte(text), 0o644); err != nil {
				panic(err)
			}
			os.Rename(tmp, p)
		}
	})
	return dir
}

func allNames() []Def {
	var out []Def
	for _, n := range classNames {
		out = append(out, Def{"class", n})
	}
	for _, n := range nsNames {
		out = append(out, Def{"class", "App\\" + n})
	}
	for _, n := range funcNames {
		out = append(out, Def{"func", n})
	}
	for _, n := range ifaceNames {
		out = append(out, Def{"iface", n})
	}
	return out
}

func gen(r *verifsim.Rng, tier string) (any, hx.Sched) {
	w := &W{Temps: 1 + r.Intn(4)}
	n := 3 + r.Intn(12)
	if tier == "thorough" {
		n = 3 + r.Intn(38)
	}
	w.Conc = r.Intn(4) == 0
	w.NoPrep = r.Intn(4) == 0
	names := allNames()
	pool := 2 + r.Intn(len(names)-1)
	for i := 0; i < n; i++ {
		op := Op{VM: r.Intn(w.Temps + 1)}
		if r.Intn(3) != 0 && op.VM == 0 {
			op.VM = 1 + r.Intn(w.Temps) // most operations happen on temporary VMs
		}
		switch x := r.Intn(10); {
		case x < 5:
			op.K = "def"
			nd := 1 + r.Intn(2)
			used := map[string]bool{}
			if r.Intn(5) == 0 {
				// one class declared inside `namespace App;`
				op.Defs = []Def{{"class", "App\\" + verifsim.Pick(r, nsNames)}}
				if r.Intn(6) == 0 {
					op.Fault = verifsim.Pick(r, []string{"throw", "parse"})
					op.FaultAfter = 1 // the namespaced snippet always puts its class before the fault
				}
				break
			}
			for d := 0; d < nd; d++ {
				df := names[r.Intn(pool)]
				if used[df.Name] {
					continue
				}
				used[df.Name] = true
				op.Defs = append(op.Defs, df)
			}
			if r.Intn(6) == 0 {
				op.Fault = verifsim.Pick(r, []string{"throw", "parse"})
				op.FaultAfter = r.Intn(len(op.Defs) + 1)
				if strings.HasPrefix(op.Defs[0].Name, "App\\") {
					op.FaultAfter = 1 // the namespaced snippet always puts its class before the fault
				}
			}
		case x < 7:
			op.K = "obs"
			switch r.Intn(4) {
			case 0:
				op.K = "nsobs" // short names resolved from inside `namespace App;`
			case 1:
				op.K = "mobs" // names resolved from inside an inherited method of an object this VM's code creates
			}
		case x < 9:
			op.K = "shared"
			if r.Intn(6) == 0 {
				// code parsed once by the base parser (a handler closure) declares a class through eval()
				// while running on this VM
				op.K = "evaldef"
			} else if r.Intn(6) == 0 {
				// a whole request through the hot-reload handler: it creates the request's VM itself, the request's
				// script declares a class, an interface and a function, and the handler ends the request
				op.K = "hotreq"
			} else if r.Intn(6) == 0 {
				// code on this VM runs a closure the base VM made at boot; the closure's body declares a function
				op.K = "hook"
				op.Fault = "" // (Defs[0].Name carries the form)
				op.Defs = []Def{{"func", verifsim.Pick(r, hookFormNames)}}
			} else if r.Intn(6) == 0 {
				// a script running on this VM gives a class of its own a second name with class_alias()
				op.K = "alias"
			} else if r.Intn(3) == 0 {
				// resolve a class that exists only as a file on the class path, on demand, through this VM
				op.K = "autoload"
				op.Defs = []Def{{"class", verifsim.Pick(r, loadables)}}
				op.FaultAfter = r.Intn(3) // 0: GetOrLoadClass / GetOrLoadInterface, 1: LoadPkg, 2: GetOrLoadClass("\\name")
				if op.FaultAfter == 2 && strings.HasSuffix(op.Defs[0].Name, "\\Ia") {
					op.FaultAfter = 0
				}
			}
		default:
			op.K = "discard"
			if op.VM == 0 {
				op.VM = 1 + r.Intn(w.Temps)
			}
		}
		if op.K == "def" && op.Fault == "" && len(op.Defs) > 0 && !strings.HasPrefix(op.Defs[0].Name, "App\\") && r.Intn(4) == 0 {
			op.ViaFile = true
		}
		w.Ops = append(w.Ops, op)
	}
	s := hx.SwarmSched(r, focus)
	s.MeanGap = verifsim.Pick(r, []int64{30, 100, 300, 1000, 10000})
	s.FocusWeight = verifsim.Pick(r, []int32{1, 10, 100})
	s.MaxSteps = 2000000
	s.MapMode = verifsim.Pick(r, []int{verifsim.MapSorted, verifsim.MapSorted, verifsim.MapPerm}) // Go randomises map iteration; the model does not depend on it
	return w, s
}

func decode(raw json.RawMessage) (any, error) {
	w := &W{}
	return w, json.Unmarshal(raw, w)
}

func shrink(x any) []any {
	w := x.(*W)
	var out []any
	cp := func() *W {
		b, _ := json.Marshal(w)
		c := &W{}
		json.Unmarshal(b, c)
		return c
	}
	for i := range w.Ops {
		c := cp()
		c.Ops = append(c.Ops[:i], c.Ops[i+1:]...)
		out = append(out, c)
	}
	for i := range w.Ops {
		if len(w.Ops[i].Defs) > 1 {
			for d := range w.Ops[i].Defs {
				c := cp()
				c.Ops[i].Defs = append(c.Ops[i].Defs[:d], c.Ops[i].Defs[d+1:]...)
				if c.Ops[i].FaultAfter > len(c.Ops[i].Defs) {
					c.Ops[i].FaultAfter = len(c.Ops[i].Defs)
				}
				out = append(out, c)
			}
		}
		if w.Ops[i].Fault != "" {
			c := cp()
			c.Ops[i].Fault = ""
			out = append(out, c)
		}
	}
	if w.Conc {
		c := cp()
		c.Conc = false
		out = append(out, c)
	}
	return out
}

// ---- the system under test: base VM + temporary VMs ---------------------------

type sys struct {
	outs  map[string]string // per task: what the last observation snippet reported
	env   *hx.Env
	temps []*runtime.TempVM
	seq   int
	// path of the defining snippet + name → tag
	tagOf  map[string]string
	shared data.GetValue
	svars  []data.Variable
	// auto[v][name]: VM v (0 base) has autoloaded name
	auto map[int]map[string]string
	// eval'd definitions: class name -> VM that ran the eval (only if the eval succeeded)
	evalProg  data.GetValue
	evalVars  []data.Variable
	evalNames int
	evalLast  string
	evalOn    map[string]int
	hookOn    map[string]map[int]bool // hooked function name -> VMs whose code ran the base-made closure that declares it
	hotNames  []Def                   // what finished hot-reload requests declared on their own VMs: resolvable nowhere afterwards
	aliasOn   map[string]int          // alias name -> VM whose code called class_alias() (-1: that VM was discarded)
}

func (s *sys) vm(i int) data.VM {
	if i == 0 {
		return s.env.VM
	}
	return s.temps[i-1]
}

func snippetFor(defs []Def, tags []string, fault string, faultAfter int) string {
	var b strings.Builder
	b.WriteString("<?php\n")
	if len(defs) == 1 && strings.HasPrefix(defs[0].Name, "App\\") {
		short := strings.TrimPrefix(defs[0].Name, "App\\")
		fmt.Fprintf(&b, "namespace App;\nclass %s { public function tag() { return %q; } }\n", short, tags[0])
		if fault == "throw" {
			b.WriteString("throw new \\Exception(\"injected\");\n")
		}
		if fault == "parse" {
			b.WriteString("function broken( {\n")
		}
		return b.String()
	}
	for i, d := range defs {
		if fault == "parse" && i == faultAfter {
			b.WriteString("function broken( {\n")
		}
		switch d.Kind {
		case "class":
			fmt.Fprintf(&b, "class %s { public function tag() { return %q; } }\n", d.Name, tags[i])
		case "func":
			fmt.Fprintf(&b, "function %s() { return %q; }\n", d.Name, tags[i])
		case "iface":
			fmt.Fprintf(&b, "interface %s { }\n", d.Name)
		}
	}
	if fault == "parse" && faultAfter >= len(defs) {
		b.WriteString("function broken( {\n")
	}
	if fault == "throw" {
		b.WriteString("throw new Exception(\"injected\");\n")
	}
	return b.String()
}

// nsObserveScript resolves the SHORT names A and B from inside `namespace App;`:
// App\A if this VM resolves it, otherwise the interpreter falls back to the global A.
func nsObserveScript() string {
	var b strings.Builder
	b.WriteString("<?php\nnamespace App;\n$r = \"\";\n")
	for _, n := range nsNames {
		fmt.Fprintf(&b, "$r .= \"ns:%s=\" . ((class_exists(\"App\\\\%s\") || class_exists(\"%s\")) ? (new %s())->tag() : \"-\") . \";\";\n", n, n, n, n)
	}
	b.WriteString("__out($r);\n")
	return b.String()
}

// probeScript defines, on the base VM before the history starts, a class whose
// (inherited) method performs the lookups: names resolved from inside a method
// of an object must be those of the VM whose code created the object.
func probeScript() string {
	// names are resolved dynamically (new $n(), $f()): a literal `new A()` in a
	// method body parsed once keeps the class it resolved first in its AST node,
	// which is the known finding already covered by the "shared" snippets
	var b strings.Builder
	b.WriteString("<?php\nclass Probe {\n public function see() {\n$r = \"\";\n")
	for _, n := range classNames {
		fmt.Fprintf(&b, "$n = \"%s\"; $r .= \"%s=\" . (class_exists($n) ? (new $n())->tag() : \"-\") . \";\";\n", n, n)
	}
	for _, n := range funcNames {
		fmt.Fprintf(&b, "$f = \"%s\"; $r .= \"%s=\" . (function_exists($f) ? \"y\" : \"-\") . \";\";\n", n, n)
	}
	for _, n := range ifaceNames {
		fmt.Fprintf(&b, "$r .= \"%s=\" . (interface_exists(\"%s\") ? \"y\" : \"-\") . \";\";\n", n, n)
	}
	b.WriteString("return $r;\n }\n}\nclass ProbeKid extends Probe { }\n")
	return b.String()
}

func methodObserveScript() string {
	return "<?php\n$p = new ProbeKid();\n__out($p->see());\n"
}

func observeScript() string {
	var b strings.Builder
	b.WriteString("<?php\n$r = \"\";\n")
	for _, n := range classNames {
		fmt.Fprintf(&b, "$r .= \"%s=\" . (class_exists(\"%s\") ? (new %s())->tag() : \"-\") . \";\";\n", n, n, n)
	}
	for _, n := range funcNames {
		fmt.Fprintf(&b, "$r .= \"%s=\" . (function_exists(\"%s\") ? %s() : \"-\") . \";\";\n", n, n, n)
	}
	for _, n := range ifaceNames {
		fmt.Fprintf(&b, "$r .= \"%s=\" . (interface_exists(\"%s\") ? \"y\" : \"-\") . \";\";\n", n, n)
	}
	b.WriteString("__out($r);\n")
	return b.String()
}

// runOn parses and runs src on VM i the way LoadAndRun does for a file.
func (s *sys) runOn(i int, src, path string) (out string, failed string) {
	delete(s.outs, verifsim.TaskName())
	nThrows := len(s.env.Throws)
	var prog data.GetValue
	var ctl data.Control
	var ctx data.Context
	if i == 0 {
		p := s.env.P.Clone()
		pr, c := p.ParseString(src, path)
		if c != nil {
			return "", "parse: " + first(hx.CtlStr(c))
		}
		prog, ctl = pr, nil
		ctx = s.env.VM.CreateContext(p.GetVariables())
	} else {
		tv := s.temps[i-1]
		p := tv.PrepareParse(s.env.P)
		pr, c := p.ParseString(src, path)
		if c != nil {
			return "", "parse: " + first(hx.CtlStr(c))
		}
		prog = pr
		ctx = tv.CreateContext(p.GetVariables())
	}
	_, ctl = prog.GetValue(ctx)
	out = s.outs[verifsim.TaskName()]
	if ctl != nil {
		return out, "throw: " + first(hx.CtlStr(ctl))
	}
	for _, th := range s.env.Throws[nThrows:] {
		// uncaught throws are reported per task ("task: message")
		if strings.HasPrefix(th, verifsim.TaskName()+": ") {
			return out, "throw: " + first(th)
		}
	}
	return out, ""
}

// hotHandler is the user handler of a hot-reload route: it runs a script on the VM the handler created for the request.
type hotHandler struct {
	sy        *sys
	src, path string
	ran       bool
	own       string
	failed    string
}

func (h *hotHandler) GetName() string            { return "handle" }
func (h *hotHandler) GetParams() []data.GetValue { return nil }
func (h *hotHandler) GetVariables() []data.Variable {
	return []data.Variable{data.NewVariable("r", 0, nil), data.NewVariable("w", 1, nil)}
}

func (h *hotHandler) Call(ctx data.Context) (data.GetValue, data.Control) {
	tv, ok := ctx.GetVM().(*runtime.TempVM)
	if !ok {
		h.failed = fmt.Sprintf("the request does not run on a temporary VM: %T", ctx.GetVM())
		return nil, nil
	}
	p := tv.PrepareParse(h.sy.env.P)
	pr, c := p.ParseString(h.src, h.path)
	if c != nil {
		h.failed = "parse: " + first(hx.CtlStr(c))
		return nil, nil
	}
	if _, ctl := pr.GetValue(tv.CreateContext(p.GetVariables())); ctl != nil {
		h.failed = "throw: " + first(hx.CtlStr(ctl))
		return nil, nil
	}
	h.ran = true
	yn := func(b bool) string {
		if b {
			return "y"
		}
		return "n"
	}
	k := strings.TrimSuffix(strings.TrimPrefix(filepath.Base(h.path), "hot"), ".php")
	cl, ok1 := tv.GetClass("Hot" + k + "C")
	in, ok2 := tv.GetInterface("Hot" + k + "I")
	fn, ok3 := tv.GetFunc("hot" + k + "_fn")
	h.own = yn(ok1 && cl != nil) + yn(ok2 && in != nil) + yn(ok3 && fn != nil)
	return nil, nil
}

func first(s string) string {
	if i := strings.IndexByte(s, '\n'); i >= 0 {
		s = s[:i]
	}
	if len(s) > 100 {
		s = s[:100]
	}
	return s
}

// goLookup resolves (kind, name) on VM i through the Go API and maps the
// result to the tag of the snippet that defined it ("-" if absent).
func (s *sys) goLookup(i int, d Def) string {
	vm := s.vm(i)
	var from data.From
	switch d.Kind {
	case "class":
		c, ok := vm.GetClass(d.Name)
		if !ok || c == nil {
			return "-"
		}
		from = c.GetFrom()
	case "iface":
		c, ok := vm.GetInterface(d.Name)
		if !ok || c == nil {
			return "-"
		}
		from = c.GetFrom()
	case "func":
		f, ok := vm.GetFunc(d.Name)
		if !ok || f == nil {
			return "-"
		}
		if gf, ok := f.(node.GetFrom); ok {
			from = gf.GetFrom()
		}
	}
	if from == nil {
		return "?nofrom"
	}
	if t, ok := s.tagOf[from.GetSource()+"|"+d.Name]; ok {
		return t
	}
	return "?" + from.GetSource()
}

// ---- the model -------------------------------------------------------------------

type table map[string]map[string]bool // name → candidate tags (last-wins or first-wins are both legal on a temporary VM)

type model struct {
	base      map[string]string // name → tag
	temps     []table
	maybe     []table // definitions of a faulted snippet: may or may not have been registered
	baseMaybe table
}

func newModel(n int) *model {
	m := &model{base: map[string]string{}, baseMaybe: table{}}
	for i := 0; i < n; i++ {
		m.temps = append(m.temps, table{})
		m.maybe = append(m.maybe, table{})
	}
	return m
}

func add(t table, name, tag string) {
	if t[name] == nil {
		t[name] = map[string]bool{}
	}
	t[name][tag] = true
}

// allowed returns the tags VM i may resolve name to, and whether it must resolve.
func (m *model) allowed(i int, name string) (tags map[string]bool, must bool) {
	tags = map[string]bool{}
	if t, ok := m.base[name]; ok {
		tags[t] = true
		must = true
	}
	for t := range m.baseMaybe[name] {
		tags[t] = true
	}
	if i > 0 {
		for t := range m.temps[i-1][name] {
			tags[t] = true
			must = true
		}
		for t := range m.maybe[i-1][name] {
			tags[t] = true
		}
	}
	return tags, must
}

func exec(t *testing.T, x any, s hx.Sched) *hx.Outcome {
	w := x.(*W)
	o := &hx.Outcome{}
	var log []string
	res := hx.RunBubble(t, s.Config(0), func(sim *verifsim.Sim) {
		sy := &sys{env: hx.NewEnv(), tagOf: map[string]string{}, outs: map[string]string{}, auto: map[int]map[string]string{}}
		sy.env.VM.AddNamespace("fx12", fx12Dir())
		sy.env.Capture()
		sy.env.VM.AddFunc(&hx.GoFunc{Name: "__out", Params: []string{"r"}, Fn: func(ctx data.Context, a []data.Value) (data.GetValue, data.Control) {
			sy.outs[verifsim.TaskName()] = hx.ValStr(a[0])
			return data.NewNullValue(), nil
		}})
		for i := 0; i < w.Temps; i++ {
			sy.temps = append(sy.temps, runtime.NewTempVM(sy.env.VM).(*runtime.TempVM))
			if !w.NoPrep {
				sy.temps[i].PrepareParse(sy.env.P)
			}
		}
		// the shared snippet is parsed ONCE (by the base parser, like a handler
		// closure that every request executes) and later run on different VMs
		p := sy.env.P.Clone()
		prog, ctl := p.ParseString(observeScript(), "/verif/c12/shared.php")
		if ctl != nil {
			o.Violate("C12/harness-setup", "shared snippet does not parse: "+hx.CtlStr(ctl))
			return
		}
		sy.shared, sy.svars = prog, p.GetVariables()
		sy.evalOn = map[string]int{}
		sy.aliasOn = map[string]int{}
		sy.env.VM.AddFunc(&hx.GoFunc{Name: "__evname", Params: []string{}, Fn: func(ctx data.Context, a []data.Value) (data.GetValue, data.Control) {
			sy.evalNames++
			sy.evalLast = fmt.Sprintf("EvDef%d", sy.evalNames)
			return data.NewStringValue(sy.evalLast), nil
		}})
		pe := sy.env.P.Clone()
		eprog, ectl := pe.ParseString("<?php\n$n = __evname();\neval(\"class \" . $n . \" { public function tag() { return 1; } }\");\n__out(\"done\");\n", "/verif/c12/evalshared.php")
		if ectl != nil {
			o.Violate("C12/harness-setup", "eval snippet does not parse: "+hx.CtlStr(ectl))
			return
		}
		sy.evalProg, sy.evalVars = eprog, pe.GetVariables()
		if _, failed := sy.runOn(0, probeScript(), "/verif/c12/probe.php"); failed != "" {
			o.Violate("C12/harness-setup", "probe classes cannot be defined on the base VM: "+failed)
			return
		}
		if _, failed := sy.runOn(0, hooksScript, "/verif/c12/hooks.php"); failed != "" {
			o.Violate("C12/harness-setup", "hook closures cannot be defined on the base VM: "+failed)
			return
		}
		sy.hookOn = map[string]map[int]bool{}
		m := newModel(w.Temps)
		if !w.Conc {
			sim.Spawn("driver", func() {
				for k, op := range w.Ops {
					step(o, w, sy, m, k, op, &log, nil)
				}
			})
			return
		}
		// concurrent mode: base operations first, then one task per temporary VM
		sim.Spawn("driver", func() {
			for k, op := range w.Ops {
				if op.VM == 0 {
					step(o, w, sy, m, k, op, &log, nil)
				}
			}
			logs := make([][]string, w.Temps)
			for i := 1; i <= w.Temps; i++ {
				i := i
				sim.Spawn(fmt.Sprintf("vm%d", i), func() {
					only := i
					for k, op := range w.Ops {
						if op.VM == i {
							step(o, w, sy, m, k, op, &logs[i-1], &only)
						}
					}
				})
			}
			_ = logs
		})
	})
	data.ResetOutputWriter()
	o.Res = res
	for _, p := range res.Panics {
		o.Violate(hx.PanicSig("C12", p), "task panicked: "+p.Value)
	}
	if res.Outcome == verifsim.OutDeadlock {
		o.Violate("C12/deadlock", fmt.Sprintf("history deadlocked: %v", res.Blocked))
	}
	o.Hash = verifsim.Mix(hx.HashResult(res), hx.HashStrings(log...))
	o.NonTrivial = len(w.Ops) >= 3
	o.Sample = map[string]any{"workload": w, "log": log}
	return o
}

// step executes one operation and then checks every observable triple.
// only != nil (concurrent mode): observe just that VM (others are being
// changed by their own tasks; their owners check them).
func step(o *hx.Outcome, w *W, sy *sys, m *model, k int, op Op, log *[]string, only *int) {
	names := allNames()
	switch op.K {
	case "def":
		sy.seq++
		path := fmt.Sprintf("/verif/c12/s%d_vm%d.php", k, op.VM)
		tags := make([]string, len(op.Defs))
		for i, d := range op.Defs {
			tags[i] = fmt.Sprintf("%s@vm%d#%d", d.Name, op.VM, k)
			sy.tagOf[path+"|"+d.Name] = tags[i]
		}
		src := snippetFor(op.Defs, tags, op.Fault, op.FaultAfter)
		var failed string
		if op.ViaFile {
			fileSeq++
			path = filepath.Join(filepath.Dir(os.Args[0]), "c12files", fmt.Sprintf("%08d-%08d.php", os.Getpid(), fileSeq))
			for i, d := range op.Defs {
				sy.tagOf[path+"|"+d.Name] = tags[i]
			}
			body := strings.TrimPrefix(src, "<?php\n")
			if k%2 == 1 {
				var nb strings.Builder
				for _, line := range strings.Split(body, "\n") {
					if strings.HasPrefix(line, "function ") {
						line = "if (true) { " + line + " }"
					}
					nb.WriteString(line + "\n")
				}
				body = nb.String()
			}
			os.MkdirAll(filepath.Dir(path), 0o755)
			if err := os.WriteFile(path, []byte("<?php\n$app = \"app\"; $config = [1, 2];\n"+body), 0o644); err != nil {
				panic(err)
			}
			nThrows := len(sy.env.Throws)
			_, ctl := sy.vm(op.VM).LoadAndRun(path)
			os.Remove(path)
			if ctl != nil {
				failed = "throw: " + first(hx.CtlStr(ctl))
			} else {
				for _, th := range sy.env.Throws[nThrows:] {
					if strings.HasPrefix(th, verifsim.TaskName()+": ") {
						failed = "throw: " + first(th)
					}
				}
			}
			o.Probe("definitions_through_a_file_loaded_with_LoadAndRun", 1)
		} else {
			_, failed = sy.runOn(op.VM, src, path)
		}
		*log = append(*log, fmt.Sprintf("%d def vm%d %v fault=%s -> %s", k, op.VM, op.Defs, op.Fault, failed))
		if op.Fault != "" {
			o.Fault("snippet_"+op.Fault, 1)
		}
		// model update
		for i, d := range op.Defs {
			certain := failed == "" && op.Fault == ""
			if op.VM == 0 {
				if _, exists := m.base[d.Name]; exists {
					continue // duplicate on the base VM is rejected (or ignored); first stays
				}
				if certain {
					m.base[d.Name] = tags[i]
				} else if failed == "" || op.Fault == "throw" || i < op.FaultAfter {
					// registered at parse time unless the parser stopped before it
					add(m.baseMaybe, d.Name, tags[i])
				} else if failed != "" && op.Fault == "" {
					add(m.baseMaybe, d.Name, tags[i])
				}
			} else {
				if certain {
					add(m.temps[op.VM-1], d.Name, tags[i])
				} else if op.Fault == "throw" || i < op.FaultAfter || op.Fault == "" {
					add(m.maybe[op.VM-1], d.Name, tags[i])
				}
			}
		}
	case "evaldef":
		delete(sy.outs, verifsim.TaskName())
		sy.evalLast = ""
		nThrows := len(sy.env.Throws)
		_, ctl := sy.evalProg.GetValue(sy.vm(op.VM).CreateContext(sy.evalVars))
		okRun := ctl == nil && sy.outs[verifsim.TaskName()] == "done" && len(sy.env.Throws) == nThrows
		*log = append(*log, fmt.Sprintf("%d evaldef vm%d %s -> ran=%v", k, op.VM, sy.evalLast, okRun))
		o.Probe("eval_definitions_through_base_parsed_code", 1)
		if sy.evalLast != "" {
			if okRun {
				sy.evalOn[sy.evalLast] = op.VM
			} else {
				sy.evalOn[sy.evalLast] = -1 // eval refused (it is on a temporary VM today): defined nowhere
			}
		}
	case "hotreq":
		defs := []Def{{"class", fmt.Sprintf("Hot%dC", k)}, {"iface", fmt.Sprintf("Hot%dI", k)}, {"func", fmt.Sprintf("hot%d_fn", k)}}
		src := fmt.Sprintf("<?php\nclass Hot%dC { }\ninterface Hot%dI { }\nfunction hot%d_fn() { return 1; }\n", k, k, k)
		h := &hotHandler{sy: sy, src: src, path: fmt.Sprintf("/verif/c12/hot%d.php", k)}
		hot := nethttp.HotHandler{Value: h, Ctx: sy.env.VM.CreateContext(nil)}
		func() {
			defer func() {
				if p := recover(); p != nil {
					h.failed = "panic: " + first(fmt.Sprint(p))
				}
			}()
			hot.ServeHTTP(httptest.NewRecorder(), httptest.NewRequest(gohttp.MethodGet, "/", nil))
		}()
		*log = append(*log, fmt.Sprintf("%d hotreq -> ran=%v own=%s %s", k, h.ran, h.own, h.failed))
		o.Probe("requests_through_the_hot_reload_handler", 1)
		if h.failed != "" || !h.ran {
			o.Violate("C12/observation-failed/hotreq", fmt.Sprintf("step %d: a request through HotHandler did not run its script: %s (history: %s)", k, h.failed, histStr(w, k)))
			break
		}
		if h.own != "yyy" {
			o.Violate("C12/lost/hot-request", fmt.Sprintf("step %d: the request's own VM resolves its declarations (class, interface, function) as %s (history: %s)", k, h.own, histStr(w, k)))
		}
		sy.hotNames = append(sy.hotNames, defs...)
	case "hook":
		form := op.Defs[0].Name
		name := "hooked_" + form
		_, failed := sy.runOn(op.VM, hookForms[form], fmt.Sprintf("/verif/c12/hook%d_vm%d.php", k, op.VM))
		*log = append(*log, fmt.Sprintf("%d hook vm%d %s -> %s", k, op.VM, form, failed))
		o.Probe("base_made_closures_run_on_a_vm", 1)
		if sy.hookOn[name] == nil {
			sy.hookOn[name] = map[int]bool{}
		}
		// (a second run on the same VM fails as a duplicate declaration; a first run that fails tells nothing)
		if failed == "" {
			sy.hookOn[name][op.VM] = true
		} else if !sy.hookOn[name][op.VM] {
			sy.hookOn[name][-1] = true // unknown: this form is not checked any further in this history
		}
	case "alias":
		alias := fmt.Sprintf("AlName%d", k)
		src := fmt.Sprintf("<?php\nclass AlSrc%d { }\n$r = class_alias(\"AlSrc%d\", \"%s\");\n", k, k, alias)
		_, failed := sy.runOn(op.VM, src, fmt.Sprintf("/verif/c12/alias%d_vm%d.php", k, op.VM))
		*log = append(*log, fmt.Sprintf("%d alias vm%d %s -> %s", k, op.VM, alias, failed))
		o.Probe("class_alias_called_on_a_vm", 1)
		if failed == "" {
			sy.aliasOn[alias] = op.VM
		}
	case "autoload":
		name := op.Defs[0].Name
		var c any
		var ctl data.Control
		entry := "GetOrLoadClass"
		if op.FaultAfter == 1 {
			entry = "LoadPkg"
		} else if op.FaultAfter == 2 {
			entry = "GetOrLoadClass-backslash"
		} else if strings.HasSuffix(name, "\\Ia") {
			entry = "GetOrLoadInterface"
		}
		if op.FaultAfter != 1 && strings.HasSuffix(name, "\\Ia") {
			c, ctl = sy.vm(op.VM).GetOrLoadInterface(name)
		} else if op.FaultAfter == 1 { // (field reused as a selector: the entry point `new X` / type hints use)
			c, ctl = sy.vm(op.VM).LoadPkg(name)
		} else if op.FaultAfter == 2 { // fully qualified form with a leading backslash
			c, ctl = sy.vm(op.VM).GetOrLoadClass("\\" + name)
		} else {
			c, ctl = sy.vm(op.VM).GetOrLoadClass(name)
		}
		if rv := reflect.ValueOf(c); c != nil && rv.Kind() == reflect.Pointer && rv.IsNil() {
			c = nil
		}
		*log = append(*log, fmt.Sprintf("%d autoload vm%d %s -> found=%v %s", k, op.VM, name, c != nil && ctl == nil, first(hx.CtlStr(ctl))))
		o.Probe("autoload_through_a_vm", 1)
		if c == nil || ctl != nil {
			o.Violate("C12/lost/autoload/"+entry, fmt.Sprintf("step %d: vm%d cannot resolve %s, a class that exists as a file on the class path and that every VM could resolve on demand before: %s (history: %s)", k, op.VM, name, first(hx.CtlStr(ctl)), histStr(w, k)))
			break
		}
		if sy.auto[op.VM] == nil {
			sy.auto[op.VM] = map[string]string{}
		}
		sy.auto[op.VM][name] = entry
	case "discard":
		delete(sy.auto, op.VM)
		for name, on := range sy.evalOn {
			if on == op.VM {
				sy.evalOn[name] = -1
			}
		}
		for name, on := range sy.aliasOn {
			if on == op.VM {
				sy.aliasOn[name] = -1
			}
		}
		for _, on := range sy.hookOn {
			delete(on, op.VM)
		}
		sy.temps[op.VM-1] = runtime.NewTempVM(sy.env.VM).(*runtime.TempVM)
		if !w.NoPrep {
			sy.temps[op.VM-1].PrepareParse(sy.env.P)
		}
		m.temps[op.VM-1] = table{}
		m.maybe[op.VM-1] = table{}
		o.Fault("vm_discard", 1)
		*log = append(*log, fmt.Sprintf("%d discard vm%d", k, op.VM))
	case "nsobs":
		out, failed := sy.runOn(op.VM, nsObserveScript(), fmt.Sprintf("/verif/c12/nsobs%d.php", k))
		*log = append(*log, fmt.Sprintf("%d nsobs vm%d -> %s %s", k, op.VM, out, failed))
		if failed != "" {
			o.Violate("C12/observation-failed/nsobs", fmt.Sprintf("step %d: resolving short class names inside namespace App on vm%d failed: %s (history: %s)", k, op.VM, failed, histStr(w, k)))
			break
		}
		o.Probe("namespaced_short_name_observations", 1)
		for _, seg := range strings.Split(strings.TrimSuffix(out, ";"), ";") {
			name, val, ok := strings.Cut(strings.TrimPrefix(seg, "ns:"), "=")
			if !ok {
				continue
			}
			// allowed: App\name if this VM must resolve it; the global name if it cannot; either if uncertain
			nsTags, nsMust := m.allowed(op.VM, "App\\"+name)
			gTags, gMust := m.allowed(op.VM, name)
			allowed := map[string]bool{}
			must := false
			switch {
			case nsMust:
				allowed, must = nsTags, true
			case len(nsTags) > 0:
				for t := range nsTags {
					allowed[t] = true
				}
				for t := range gTags {
					allowed[t] = true
				}
				must = gMust
			default:
				allowed, must = gTags, gMust
			}
			if val == "-" {
				if must {
					o.Violate("C12/lost/class/script/nsobs", fmt.Sprintf("after step %d, code in namespace App on vm%d cannot resolve the short name %s although it is defined for that VM (expected one of %v) (history: %s)", k, op.VM, name, keys(allowed), histStr(w, k)))
				}
				continue
			}
			if !allowed[val] {
				o.Violate("C12/leak/class/script/nsobs", fmt.Sprintf("after step %d, code in namespace App on vm%d resolves the short name %s to %s (allowed here: %v) (history: %s)", k, op.VM, name, val, keys(allowed), histStr(w, k)))
			}
		}
	case "obs", "shared", "mobs":
		var out, failed string
		if op.K == "obs" {
			out, failed = sy.runOn(op.VM, observeScript(), fmt.Sprintf("/verif/c12/obs%d.php", k))
		} else if op.K == "mobs" {
			out, failed = sy.runOn(op.VM, methodObserveScript(), fmt.Sprintf("/verif/c12/mobs%d.php", k))
			o.Probe("method_level_observations", 1)
		} else {
			delete(sy.outs, verifsim.TaskName())
			ctx := sy.vm(op.VM).CreateContext(sy.svars)
			_, ctl := sy.shared.GetValue(ctx)
			out = sy.outs[verifsim.TaskName()]
			if ctl != nil {
				failed = "throw: " + first(hx.CtlStr(ctl))
			}
			o.Probe("shared_snippet_runs", 1)
		}
		*log = append(*log, fmt.Sprintf("%d %s vm%d -> %s %s", k, op.K, op.VM, out, failed))
		if failed != "" {
			o.Violate("C12/observation-failed/"+op.K, fmt.Sprintf("step %d: observing names on vm%d through a %s snippet failed: %s (history: %s)", k, op.VM, op.K, failed, histStr(w, k)))
			break
		}
		for _, seg := range strings.Split(strings.TrimSuffix(out, ";"), ";") {
			name, val, ok := strings.Cut(seg, "=")
			if !ok {
				continue
			}
			kind := "class"
			if strings.HasPrefix(name, "f") {
				kind = "func"
			} else if strings.HasPrefix(name, "I") {
				kind = "iface"
			}
			checkOne(o, w, m, k, op.VM, Def{kind, name}, val, "script/"+op.K)
		}
	}
	// Go-level observation of every (VM, kind, name) triple after every step
	for v := 0; v <= w.Temps; v++ {
		if only != nil && v != *only {
			continue
		}
		for _, d := range names {
			checkOne(o, w, m, k, v, d, sy.goLookup(v, d), "go")
		}
		// spelling: class names are case-insensitive on the base VM, so what the base VM defines resolves
		// through every VM under another letter case too (whatever was looked up, and missed, before)
		for _, d := range names {
			if d.Kind != "class" {
				continue
			}
			if _, onBase := m.base[d.Name]; !onBase {
				continue
			}
			if c, ok := sy.vm(v).GetClass(strings.ToLower(d.Name)); !ok || c == nil {
				vmk := "temp"
				if v == 0 {
					vmk = "base"
				}
				o.Violate("C12/lost/class/case-variant/"+vmk, fmt.Sprintf("after step %d, vm%d does not resolve %s under the spelling %s although the base VM defines it (history: %s)", k, v, d.Name, strings.ToLower(d.Name), histStr(w, k)))
			}
		}
		// argument form: a fully qualified name with a leading backslash ("\\A", what a run-time string such as
		// `new $n` or class_exists("\\A") hands over) resolves exactly like the name without it
		for _, d := range names {
			if d.Kind != "class" {
				continue
			}
			c1, ctl1 := sy.vm(v).GetOrLoadClass(d.Name)
			c2, ctl2 := sy.vm(v).GetOrLoadClass("\\" + d.Name)
			f1, f2 := c1 != nil && ctl1 == nil, c2 != nil && ctl2 == nil
			if f1 != f2 {
				vmk := "temp"
				if v == 0 {
					vmk = "base"
				}
				o.Violate("C12/backslash-form/GetOrLoadClass/"+vmk, fmt.Sprintf("after step %d, vm%d resolves %s: %v but \\%s: %v (history: %s)", k, v, d.Name, f1, d.Name, f2, histStr(w, k)))
			}
		}
		// classes declared through eval(): registered exactly on the VM that ran the eval (everywhere if the base VM did)
		var evNames []string
		for name := range sy.evalOn {
			evNames = append(evNames, name)
		}
		sort.Strings(evNames) // (a fixed order: each lookup consumes a map-order decision of the simulator)
		for _, name := range evNames {
			on := sy.evalOn[name]
			c, ok := sy.vm(v).GetClass(name)
			has := ok && c != nil
			want := on == 0 || on == v
			if on > 0 && sy.temps[on-1] == nil {
				want = false
			}
			vmk := "temp"
			if v == 0 {
				vmk = "base"
			}
			if has && !want {
				o.Violate("C12/leak/eval/into-"+vmk, fmt.Sprintf("after step %d, vm%d has %s registered, a class that code running on vm%d declared through eval() (history: %s)", k, v, name, on, histStr(w, k)))
			}
			if !has && want && on >= 0 {
				o.Violate("C12/lost/eval/"+vmk, fmt.Sprintf("after step %d, vm%d does not have %s, which it declared through eval() (history: %s)", k, v, name, histStr(w, k)))
			}
		}
		// what a finished hot-reload request declared on its own VM resolves on no VM that exists or is created later
		for _, d := range sy.hotNames {
			has := false
			switch d.Kind {
			case "class":
				c, ok := sy.vm(v).GetClass(d.Name)
				has = ok && c != nil
			case "iface":
				c, ok := sy.vm(v).GetInterface(d.Name)
				has = ok && c != nil
			default:
				f, ok := sy.vm(v).GetFunc(d.Name)
				has = ok && f != nil
			}
			if has {
				vmk := "temp"
				if v == 0 {
					vmk = "base"
				}
				o.Violate("C12/leak/hot-request/"+d.Kind+"/into-"+vmk, fmt.Sprintf("after step %d, vm%d resolves %s %s, which a finished request declared on the VM the hot-reload handler gave it (history: %s)", k, v, d.Kind, d.Name, histStr(w, k)))
			}
		}
		// functions declared by base-made closures: registered where the closure RAN
		for _, form := range hookFormNames {
			name := "hooked_" + form
			on := sy.hookOn[name]
			if on == nil || on[-1] {
				continue
			}
			f, ok := sy.vm(v).GetFunc(name)
			has := ok && f != nil
			if has && !on[0] && !on[v] {
				vmk := "temp"
				if v == 0 {
					vmk = "base"
				}
				var ran []int
				for u := range on {
					ran = append(ran, u)
				}
				sort.Ints(ran)
				o.Violate("C12/leak/hook/"+form+"/into-"+vmk, fmt.Sprintf("after step %d, vm%d resolves %s, a function declared by a closure (made on the base VM at boot) that only code on vm%v ran (history: %s)", k, v, name, ran, histStr(w, k)))
			}
		}
		// names given with class_alias(): whatever the call does, the name belongs to the VM whose code gave it
		var alNames []string
		for name := range sy.aliasOn {
			alNames = append(alNames, name)
		}
		sort.Strings(alNames)
		for _, name := range alNames {
			on := sy.aliasOn[name]
			c, ok := sy.vm(v).GetClass(name)
			if ok && c != nil && on != 0 && on != v {
				vmk := "temp"
				if v == 0 {
					vmk = "base"
				}
				o.Violate("C12/leak/alias/into-"+vmk, fmt.Sprintf("after step %d, vm%d resolves %s, a name that code running on vm%d gave to one of its own classes with class_alias() (history: %s)", k, v, name, on, histStr(w, k)))
			}
		}
		// classes loaded on demand: registered (without loading) exactly where they were loaded
		for _, name := range loadables {
			var has bool
			if strings.HasSuffix(name, "\\Ia") {
				c, ok := sy.vm(v).GetInterface(name)
				has = ok && c != nil
			} else {
				c, ok := sy.vm(v).GetClass(name)
				has = ok && c != nil
			}
			may := sy.auto[0][name] != "" || sy.auto[v][name] != ""
			via := "unknown"
			for u := 0; u <= w.Temps; u++ {
				if e := sy.auto[u][name]; e != "" {
					via = e
				}
			}
			vmk := "temp"
			if v == 0 {
				vmk = "base"
			}
			if has && !may {
				o.Violate("C12/leak/autoload/"+via+"/into-"+vmk, fmt.Sprintf("after step %d, vm%d has %s registered although only another VM loaded it, through %s (history: %s)", k, v, name, via, histStr(w, k)))
			}
			if !has && may {
				o.Violate("C12/lost/autoloaded/"+vmk, fmt.Sprintf("after step %d, vm%d no longer has %s although it (or the base VM) loaded it (history: %s)", k, v, name, histStr(w, k)))
			}
		}
	}
}

func histStr(w *W, upto int) string {
	var parts []string
	for k, op := range w.Ops {
		if k > upto {
			break
		}
		s := fmt.Sprintf("%d:%s@vm%d", k, op.K, op.VM)
		if op.K == "autoload" {
			s += "[" + op.Defs[0].Name + map[int]string{0: "", 1: " via LoadPkg", 2: " with a leading backslash"}[op.FaultAfter] + "]"
		}
		if op.K == "def" {
			var ds []string
			for _, d := range op.Defs {
				ds = append(ds, d.Name)
			}
			s += "[" + strings.Join(ds, ",") + "]"
			if op.Fault != "" {
				s += "!" + op.Fault
			}
		}
		parts = append(parts, s)
	}
	return strings.Join(parts, " ")
}

func checkOne(o *hx.Outcome, w *W, m *model, k, v int, d Def, got, via string) {
	tags, must := m.allowed(v, d.Name)
	if got == "y" {
		// existence only (interfaces at script level; functions seen from a method)
		if len(tags) == 0 {
			o.Violate("C12/leak/"+d.Kind+"/"+via, fmt.Sprintf("after step %d, vm%d resolves "+d.Kind+" %s although neither the base VM nor vm%d defines it (history: %s)", k, v, d.Name, v, histStr(w, k)))
		}
		return
	}
	if got == "-" {
		if must {
			o.Violate("C12/lost/"+d.Kind+"/"+via, fmt.Sprintf("after step %d, vm%d no longer resolves %s %s although it is defined for that VM (expected one of %v) (history: %s)", k, v, d.Kind, d.Name, keys(tags), histStr(w, k)))
		}
		return
	}
	if !tags[got] {
		where := "a definition this VM must not see"
		if strings.Contains(got, "@vm") {
			owner := got[strings.Index(got, "@vm")+1:]
			owner = owner[:strings.IndexByte(owner, '#')]
			where = "the definition made on " + owner
		}
		vmk := "temp"
		if v == 0 {
			vmk = "base"
		}
		o.Violate("C12/leak/"+d.Kind+"/"+via+"/into-"+vmk, fmt.Sprintf("after step %d, vm%d resolves %s %s to %s: %s (allowed here: %v) (history: %s)", k, v, d.Kind, d.Name, got, where, keys(tags), histStr(w, k)))
	}
}

func keys(m map[string]bool) []string {
	var out []string
	for k := range m {
		out = append(out, k)
	}
	sort.Strings(out)
	if len(out) == 0 {
		return []string{"(absent)"}
	}
	return out
}

var prop = &hx.Prop{
	ID: "C12", Gen: gen, Decode: decode, Focus: focus, Exec: exec, Shrink: shrink,
	Components: map[string]string{
		"runtime.VM, runtime.TempVM (PrepareParse, CreateContext, Add*/Get*), parser (class/function/interface registration at parse time), interpreter nodes (new, call, class_exists, function_exists, interface_exists)": "real (instrumented copy of /repo)",
		"requests owning temporary VMs": "simulated parties: a driver task (sequential histories) or one task per temporary VM (concurrent mode)",
		"faults":                        "injected: snippet that throws after its definitions, snippet with a syntax error after k definitions, VM discard at an arbitrary step",
		"oracle":                        "set-based model of base + per-VM tables, checked after every step through the Go lookup API on every VM and through freshly parsed and parsed-once (shared) observation snippets",
	},
}

func TestWorker(t *testing.T) { hx.Main(t, prop) }
