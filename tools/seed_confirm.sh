#!/bin/sh
# usage: seed_confirm.sh <patch.diff> <pkgdir> <run-regex> <demo_test.go>...
# In a scratch worktree of /repo HEAD: (1) without the patch the demo passes, (2) with the patch
# the tree builds, the existing tests give the same result as before, and the demo fails.
set -u
PATCH=$(readlink -f "$1"); PKG=$2; RE=$3; shift 3
. /verif/env.sh
WT=/tmp/seed-confirm-$$
git -C /repo worktree add -q "$WT" HEAD || exit 2
trap 'git -C /repo worktree remove --force "$WT" >/dev/null 2>&1' EXIT
cd "$WT"
suite() { go test -vet=off -count=1 ./... 2>&1 | grep -E "^(ok|FAIL|---)" | sed 's/[0-9.]*s$//; s/\t[0-9.]*s//' | sort; }
suite > /tmp/seed-base-$$.txt
for f in "$@"; do cp "$f" "$PKG/"; done
echo "--- demo WITHOUT the change:"; go test -vet=off -count=1 -run "$RE" "./$PKG/" 2>&1 | tail -3
for f in "$@"; do rm -f "$PKG/$(basename $f)"; done
git apply --3way "$PATCH" 2>/dev/null || { echo PATCH-DOES-NOT-APPLY; exit 2; }
go build ./... || { echo BUILD-FAILS; exit 2; }
suite > /tmp/seed-patched-$$.txt
if diff -q /tmp/seed-base-$$.txt /tmp/seed-patched-$$.txt >/dev/null; then echo "--- existing suite: same result with the change ($(grep -c '^ok' /tmp/seed-patched-$$.txt) packages ok)"; else echo "--- existing suite DIFFERS:"; diff /tmp/seed-base-$$.txt /tmp/seed-patched-$$.txt; fi
for f in "$@"; do cp "$f" "$PKG/"; done
echo "--- demo WITH the change:"; go test -vet=off -count=1 -run "$RE" "./$PKG/" 2>&1 | grep -E "^(--- FAIL|FAIL|ok|PASS)" | head -8
rm -f /tmp/seed-base-$$.txt /tmp/seed-patched-$$.txt
