#!/bin/sh
# usage: cleanrun.sh <tier> <seed>...   — every check on the unchanged tree must exit 0 for every seed
cd /verif; . ./env.sh
tier=$1; shift
for seed in "$@"; do for id in C09 C10 C11 C12 C13 C19 C20; do
  VERIF_SEED=$seed ./bin/verif check $id --tier $tier > /var/tmp/cleanrun-$id-$seed.log 2>&1; rc=$?
  echo "seed=$seed $id exit=$rc $(grep "$tier:" /var/tmp/cleanrun-$id-$seed.log | cut -c1-150)"
  [ $rc -ne 0 ] && grep "VIOLATION\|signature\|UNCONF\|NONDET\|verif:" /var/tmp/cleanrun-$id-$seed.log | cut -c1-300 | head -8
done; done
find /verif/replays -name '*.json' -delete
