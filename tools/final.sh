#!/bin/sh
# Last steps before a commit that registers checks: every check clean at three seeds, evidence refreshed from
# /verif against /repo at seed 1, MANIFEST and evidence validated against their schemas.
cd /verif; . ./env.sh
./setup.sh >/dev/null || exit 2
tools/cleanrun.sh quick 2 3 || exit 2
rc=0
for id in C09 C10 C11 C12 C13 C19 C20; do
  VERIF_SEED=1 ./check.sh $id quick > /var/tmp/final-$id.log 2>&1; e=$?
  echo "seed=1 $id exit=$e $(grep 'quick:' /var/tmp/final-$id.log | cut -c1-150)"
  [ $e -ne 0 ] && rc=1
done
find /verif/replays -name '*.json' -delete
python3-vt - <<'P' || rc=1
import json, jsonschema, glob
jsonschema.validate(json.load(open('/verif/MANIFEST.json')), json.load(open('/root/.vp/MANIFEST.schema.json')))
sch = json.load(open('/root/.vp/EVIDENCE.schema.json'))
for f in sorted(glob.glob('/verif/evidence/*.json')):
    jsonschema.validate(json.load(open(f)), sch)
print("MANIFEST and", len(glob.glob('/verif/evidence/*.json')), "evidence files valid")
P
exit $rc
