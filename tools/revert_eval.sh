#!/bin/sh
# usage: revert_eval.sh <fix-commit> <PROP>   — the check must report the repaired defect again when its fix is reverted
set -u
C=$1; PROP=$2; shift 2
. /verif/env.sh
WT=/tmp/revert-eval-$$
git -C /repo worktree add -q "$WT" HEAD || exit 2
trap 'git -C /repo worktree remove --force "$WT" >/dev/null 2>&1' EXIT
# <fix-commit> may be a comma-separated list (a fix and its later correction), reverted in the order given
for c in $(echo "$C" | tr ',' ' '); do
  git -C "$WT" revert --no-commit "$c" >/dev/null 2>&1 || { echo "REVERT-CONFLICT $c"; exit 2; }
done
(cd "$WT" && go build ./...) || { echo BUILD-FAILS; exit 2; }
VERIF_REPO="$WT" /verif/bin/verif check "$PROP" "$@" 2>&1 | grep "VIOLATION\|signature:\|quick:" | cut -c1-200
find /verif/replays -name '*.json' -mmin -10 -delete 2>/dev/null
