#!/bin/sh
# Large-sample determinism proof of the simulator (DESIGN §2.7): for every property, the first N runs
# of two seeds are executed again in P separate processes (GOMAXPROCS cycling 1/4/16, every third
# process in reverse order) and every run's result hash must be the same in all of them.
# usage: determinism.sh [N=200] [P=30]
cd /verif; . ./env.sh
N=${1:-200}; P=${2:-30}
for seed in 1 7; do for id in C09 C10 C11 C12 C13 C19 C20; do
  out=$(VERIF_SEED=$seed VERIF_DET_PROCS=$P VERIF_DET_RUNS=$N ./bin/verif check $id --runs $N 2>&1); rc=$?
  n=$(echo "$out" | grep -c NONDETERMINISM)
  cmp=$(python3 -c "import json;d=json.load(open('evidence/$id.json'))['coverage']['determinism_selftest'];print(d['runs_compared'],'runs x',d['processes'],'processes, mismatches',d['mismatches'],'in-process repeat mismatches',d['in_process_repeats_mismatch'])")
  echo "seed=$seed $id exit=$rc nondeterminism-lines=$n: $cmp"
done; done
find /verif/replays -name '*.json' -delete
