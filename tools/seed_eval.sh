#!/bin/sh
# usage: seed_eval.sh <patch.diff> <PROP> [extra args for verif check]
# Applies a seeded change to a scratch worktree of /repo's HEAD (never to /repo), runs the
# property's check against it, prints the verdict lines, removes the worktree.
set -u
PATCH=$(readlink -f "$1"); PROP=$2; shift 2
. /verif/env.sh
WT=/tmp/seed-eval-$$
git -C /repo worktree add -q "$WT" HEAD || exit 2
trap 'git -C /repo worktree remove --force "$WT" >/dev/null 2>&1' EXIT
if ! git -C "$WT" apply --3way "$PATCH" 2>/tmp/seed-apply-$$.log; then
  echo "PATCH-DOES-NOT-APPLY"; cat /tmp/seed-apply-$$.log; rm -f /tmp/seed-apply-$$.log; exit 2
fi
rm -f /tmp/seed-apply-$$.log
(cd "$WT" && go build ./... ) || { echo "BUILD-FAILS"; exit 2; }
VERIF_REPO="$WT" /verif/bin/verif check "$PROP" "$@" 2>&1 | grep -v "^  instr\|built worker\|KNOWN-FINDING" | cut -c1-600
find /verif/replays -name '*.json' -newer "$PATCH" -delete 2>/dev/null
