#!/bin/sh
# Re-runs every seeded change (seeded/*/patch.diff) and every fix: revert against the quick checks.
# Prints one line per case: DETECTED / MISSED / TROUBLE. Used after generator changes to make sure
# earlier detections were not lost. Never touches /repo's working tree (scratch worktrees only).
# PROPS="C09 C10" restricts the sweep to those properties (after a change to their generators only).
cd /verif
want() { [ -z "${PROPS:-}" ] || echo " $PROPS " | grep -q " $1 "; }
for d in seeded/*/; do
  id=$(basename $d); prop=$(python3 -c "import json;print(json.load(open('$d/meta.json'))['property'])")
  want $prop || continue
  [ -n "${FROM:-}" ] && [ "$id" \< "$FROM" ] && continue   # FROM=c11n resumes an interrupted sweep at that change
  out=$(tools/seed_eval.sh $d/patch.diff $prop 2>&1)
  if echo "$out" | grep -q "^VIOLATION"; then echo "DETECTED $id $prop $(echo "$out" | grep -c '^VIOLATION') signature(s)";
  elif echo "$out" | grep -q "PATCH-DOES-NOT-APPLY\|BUILD-FAILS\|did not finish\|BUILD-TROUBLE"; then echo "TROUBLE  $id $prop"; echo "$out" | tail -3;
  else echo "MISSED   $id $prop"; fi
done
# <commit[,commit...]> <PROP> <pattern the reported signatures must contain> (a list reverts a fix together with the
# later commits that touch the same lines; the pattern makes sure it is THIS fix's defect that is reported again)
while read c prop pat; do
  [ -z "$c" ] && continue
  want $prop || continue
  out=$(tools/revert_eval.sh $c $prop 2>&1)
  if echo "$out" | grep "signature:" | grep -q -- "$pat"; then echo "DETECTED revert-$c $prop ($pat)"; else echo "MISSED   revert-$c $prop ($pat)"; echo "$out" | tail -3; fi
done <<'LIST'
7daf4f9 C09 panic
01c70e8,bb417bc,bf58d7f,8a6eff1 C10 C10/
8fcdfa8 C10 ResetUserOutput
3d93382 C13 double-commit
4d2137d,902d35b,72be2e9,a02226d,658217e C19 history-dependent/property
c2c8d55 C20 node/class.go
4b942e9 C11 trycatch
79de7a7 C20 std/php/array
5d866c8 C20 json
531f381 C09 received-unsent
de8aee6 C20 leak/require
9acab12 C12 lost/autoload
01c70e8,86a7b1b C12 leak/autoload/GetOrLoadInterface
01c70e8,bf58d7f C12 leak/autoload/LoadPkg
bb417bc C12 backslash-form
01c70e8 C12 nil pointer
15a4b2d C11 sequential/foreign-request-data
4d2137d,902d35b,72be2e9,a02226d C19 nullable-property
72be2e9 C19 union-property
4d2137d,902d35b C19 constructor-parameter
LIST
find /verif/replays -name '*.json' -delete
