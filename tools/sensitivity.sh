#!/bin/sh
# Re-runs every seeded change (seeded/*/patch.diff) and every fix: revert against the quick checks.
# Prints one line per case: DETECTED / MISSED / TROUBLE. Used after generator changes to make sure
# earlier detections were not lost. Never touches /repo's working tree (scratch worktrees only).
cd /verif
for d in seeded/*/; do
  id=$(basename $d); prop=$(python3 -c "import json;print(json.load(open('$d/meta.json'))['property'])")
  out=$(tools/seed_eval.sh $d/patch.diff $prop 2>&1)
  if echo "$out" | grep -q "^VIOLATION"; then echo "DETECTED $id $prop $(echo "$out" | grep -c '^VIOLATION') signature(s)";
  elif echo "$out" | grep -q "PATCH-DOES-NOT-APPLY\|BUILD-FAILS\|did not finish\|BUILD-TROUBLE"; then echo "TROUBLE  $id $prop"; echo "$out" | tail -3;
  else echo "MISSED   $id $prop"; fi
done
for p in "7daf4f9 C09" "8a6eff1 C10" "8fcdfa8 C10" "3d93382 C13" "658217e C19" "c2c8d55 C20" "4b942e9 C11" "79de7a7 C20" "5d866c8 C20" "531f381 C09" "de8aee6 C20" "9acab12 C12" "86a7b1b C12" "bf58d7f C12" "bb417bc C12" "01c70e8 C12" "15a4b2d C11" "a02226d C19" "72be2e9 C19" "4d2137d,902d35b C19"; do
  set -- $p
  out=$(tools/revert_eval.sh $1 $2 2>&1)
  if echo "$out" | grep -q "^VIOLATION"; then echo "DETECTED revert-$1 $2"; else echo "MISSED   revert-$1 $2"; echo "$out" | tail -2; fi
done
find /verif/replays -name '*.json' -delete
