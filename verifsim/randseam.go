package verifsim

import (
	"math/rand"
)

// Random-number seam. Calls of the top-level functions of math/rand and
// math/rand/v2 in instrumented code are redirected here by verif-instrument.
// Inside a simulation every value is a pure function of the run's seed and the
// number of values drawn so far in this run; outside they are the real thing.

//go:norace
func (s *Sim) nextRand() *Rng {
	s.randN++
	return NewRng(Mix(s.cfg.Seed^0x7a4d5eed, uint64(s.randN)))
}

func simRng() *Rng {
	if s := cur.Load(); s != nil {
		return s.nextRand()
	}
	return nil
}

func RandInt() int {
	if r := simRng(); r != nil {
		return int(r.Uint64() >> 1)
	}
	return rand.Int()
}

func RandIntn(n int) int {
	if n <= 0 {
		panic("invalid argument to Intn")
	}
	if r := simRng(); r != nil {
		return r.Intn(n)
	}
	return rand.Intn(n)
}

func RandInt63() int64 {
	if r := simRng(); r != nil {
		return int64(r.Uint64() >> 1)
	}
	return rand.Int63()
}

func RandInt63n(n int64) int64 {
	if n <= 0 {
		panic("invalid argument to Int63n")
	}
	if r := simRng(); r != nil {
		return int64(r.Uint64()>>1) % n
	}
	return rand.Int63n(n)
}

func RandInt31() int32 {
	if r := simRng(); r != nil {
		return int32(r.Uint64() >> 33)
	}
	return rand.Int31()
}

func RandInt31n(n int32) int32 {
	if n <= 0 {
		panic("invalid argument to Int31n")
	}
	if r := simRng(); r != nil {
		return int32(r.Uint64()>>33) % n
	}
	return rand.Int31n(n)
}

func RandUint32() uint32 {
	if r := simRng(); r != nil {
		return uint32(r.Uint64() >> 32)
	}
	return rand.Uint32()
}

func RandUint64() uint64 {
	if r := simRng(); r != nil {
		return r.Uint64()
	}
	return rand.Uint64()
}

func RandFloat64() float64 {
	if r := simRng(); r != nil {
		return r.Float()
	}
	return rand.Float64()
}

func RandFloat32() float32 {
	if r := simRng(); r != nil {
		return float32(r.Uint64()>>40) / float32(1<<24)
	}
	return rand.Float32()
}

func RandPerm(n int) []int {
	if r := simRng(); r != nil {
		return r.Perm(n)
	}
	return rand.Perm(n)
}

func RandShuffle(n int, swap func(i, j int)) {
	if r := simRng(); r != nil {
		for i := n - 1; i > 0; i-- {
			swap(i, r.Intn(i+1))
		}
		return
	}
	rand.Shuffle(n, swap)
}
