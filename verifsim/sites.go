package verifsim

import (
	"strconv"
	"strings"
)

// Site tables. The instrumenter writes sites_gen.go whose init() fills them:
// yield site i is at SiteFiles[SiteFile[i]]:SiteLine[i]; map-range site j is
// described by MapSites[j] ("file:line").
var (
	SiteFiles []string
	SiteFile  []uint16
	SiteLine  []int32
	MapSites  []string
)

// SiteString renders a yield site as file:line.
func SiteString(site int32) string {
	switch {
	case site == -1:
		return "gate"
	case site == -2:
		return "start"
	case site == -3:
		return "harness"
	case site < 0 || int(site) >= len(SiteFile):
		return "site#" + strconv.Itoa(int(site))
	}
	return SiteFiles[SiteFile[site]] + ":" + strconv.Itoa(int(SiteLine[site]))
}

func siteWeights(focus []string, w int32) []int32 {
	if len(focus) == 0 || w <= 1 {
		return nil
	}
	fw := make([]int32, len(SiteFiles))
	for i, f := range SiteFiles {
		fw[i] = 1
		for _, sub := range focus {
			if strings.Contains(f, sub) {
				fw[i] = w
				break
			}
		}
	}
	out := make([]int32, len(SiteFile))
	for i, f := range SiteFile {
		out[i] = fw[f]
	}
	return out
}

// TraceStrings renders a trace for replay files and evidence samples.
func (r *Result) TraceStrings(max int) []string {
	var out []string
	for i, e := range r.Trace {
		if max > 0 && i >= max {
			out = append(out, "…")
			break
		}
		name := "?"
		if int(e.Task) < len(r.TaskNames) {
			name = r.TaskNames[e.Task]
		}
		s := name + "@" + SiteString(e.Site)
		if e.Kind == 1 {
			s += " (re-probe lock)"
		}
		out = append(out, s)
	}
	return out
}

// SwitchSignature hashes the sequence of context switches (task, site at
// which the previous task was parked): the run's interleaving signature.
func (r *Result) SwitchSignature() uint64 {
	h := uint64(1469598103934665603)
	prev := int32(-1)
	for _, e := range r.Trace {
		if e.Task != prev {
			h = Mix(h, uint64(uint32(e.Task))<<32|uint64(uint32(e.Site)))
			prev = e.Task
		}
	}
	return h
}

// FocusSiteCount returns how many yield sites lie in files matching focus.
func FocusSiteCount(focus []string) int {
	n := 0
	for _, f := range SiteFile {
		for _, sub := range focus {
			if strings.Contains(SiteFiles[f], sub) {
				n++
				break
			}
		}
	}
	return n
}
