package verifsim

import (
	"runtime"
	"weak"
)

// Collector seam. When a cleanup registered with runtime.AddCleanup runs is the garbage collector's decision: a
// source of nondeterminism like the scheduler's. verif-instrument sends runtime.AddCleanup of the code under test
// here. Inside a simulated run the cleanup is registered with the simulator next to a weak pointer to its object;
// at the points where the harness injects the fault "the collector runs now" (CollectNow) two full collections are
// forced synchronously and every registered cleanup whose object is gone becomes a simulated TASK, scheduled like
// any other (in the Go runtime it would run on a goroutine of the runtime, outside the bubble and outside the
// scheduler's control). Outside a simulation the real runtime.AddCleanup is called.

type cleanupReg struct {
	dead func() bool
	run  func()
	done bool
}

func AddCleanup[T, S any](ptr *T, cleanup func(S), arg S) runtime.Cleanup {
	s := cur.Load()
	if s == nil || s.cfg.Mode != ModeBubble || s.taskOf(getg()) == nil {
		return runtime.AddCleanup(ptr, cleanup, arg)
	}
	wp := weak.Make(ptr)
	s.addCleanup(&cleanupReg{dead: func() bool { return wp.Value() == nil }, run: func() { cleanup(arg) }})
	return runtime.Cleanup{} // (Stop of the zero value is a no-op)
}

//go:norace
func (s *Sim) addCleanup(r *cleanupReg) { s.cleanups = append(s.cleanups, r) }

var gcForced, gcCleanupsRun int64

// CollectStats returns (collections forced, cleanups run as tasks) since process start.
//
//go:norace
func CollectStats() (int64, int64) { return gcForced, gcCleanupsRun }

// CollectNow injects "the collector runs now". Called by a harness from a running task.
func CollectNow() {
	s := cur.Load()
	if s == nil || s.cfg.Mode != ModeBubble {
		return
	}
	runtime.GC()
	runtime.GC()
	selCount(&gcForced)
	for _, r := range s.pendingCleanups() {
		if r.dead() {
			r.done = true
			selCount(&gcCleanupsRun)
			Go(r.run)
		}
	}
}

//go:norace
func (s *Sim) pendingCleanups() []*cleanupReg {
	var out []*cleanupReg
	for _, r := range s.cleanups {
		if !r.done {
			out = append(out, r)
		}
	}
	return out
}
