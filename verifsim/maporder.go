package verifsim

import (
	"cmp"
	"fmt"
	"os"
	"slices"
	"strconv"
	"strings"
	"sync"
	"sync/atomic"
)

// Map iteration order is the adversary of determinism properties. The
// instrumenter rewrites
//
//	for k, v := range m { body }
//
// into a loop over MapKeys(m, site). With no map configuration active the keys
// come back in Go's own (random) order, so shipped behaviour is unchanged; with
// one active the order is a pure function of (mode, seed, site, call number).

const (
	MapSorted  = 0
	MapReverse = 1
	MapPerm    = 2
	MapNative  = 3 // leave Go's order (only meaningful as a per-site override)
)

type MapConfig struct {
	Mode  int
	Seed  uint64
	Sites map[int32]int // per-site override of Mode
	calls []int64       // per site
	perm  []int64
	mu    sync.Mutex
}

var mapCfg atomic.Pointer[MapConfig]

// SetMapConfig installs (or with nil removes) the process-wide map order.
func SetMapConfig(c *MapConfig) {
	if c != nil {
		c.calls = make([]int64, len(MapSites)+1)
		c.perm = make([]int64, len(MapSites)+1)
	}
	mapCfg.Store(c)
}

// MapStats returns per-site (calls, non-identity permutations applied).
func (c *MapConfig) Stats() (calls, perm []int64) { return c.calls, c.perm }

func init() {
	// Subprocess seam: VERIFSIM_MAP="mode:seed[:site=mode,...]"
	v := os.Getenv("VERIFSIM_MAP")
	if v == "" {
		return
	}
	parts := strings.Split(v, ":")
	c := &MapConfig{}
	c.Mode, _ = strconv.Atoi(parts[0])
	if len(parts) > 1 {
		c.Seed, _ = strconv.ParseUint(parts[1], 10, 64)
	}
	if len(parts) > 2 && parts[2] != "" {
		c.Sites = map[int32]int{}
		for _, kv := range strings.Split(parts[2], ",") {
			a, b, ok := strings.Cut(kv, "=")
			if !ok {
				continue
			}
			si, _ := strconv.Atoi(a)
			mo, _ := strconv.Atoi(b)
			c.Sites[int32(si)] = mo
		}
	}
	defer func() { recover() }()
	SetMapConfig(c)
}

// MapKeys returns the keys of m in the order chosen by the simulator.
//
//go:norace
func MapKeys[M ~map[K]V, K cmp.Ordered, V any](m M, site int32) []K {
	keys := make([]K, 0, len(m))
	for k := range m {
		keys = append(keys, k)
	}
	c := mapCfg.Load()
	if c == nil {
		return keys
	}
	mode := c.Mode
	if c.Sites != nil {
		if mo, ok := c.Sites[site]; ok {
			mode = mo
		}
	}
	if mode == MapNative {
		return keys
	}
	slices.Sort(keys)
	var call int64
	if int(site) < len(c.calls) && site >= 0 {
		c.calls[site]++
		call = c.calls[site]
	}
	switch mode {
	case MapReverse:
		slices.Reverse(keys)
		if len(keys) > 1 && int(site) < len(c.perm) && site >= 0 {
			c.perm[site]++
		}
	case MapPerm:
		r := NewRng(Mix(c.Seed, uint64(site)<<32|uint64(call)))
		moved := false
		for i := len(keys) - 1; i > 0; i-- {
			j := r.Intn(i + 1)
			if i != j {
				moved = true
			}
			keys[i], keys[j] = keys[j], keys[i]
		}
		if moved && int(site) < len(c.perm) && site >= 0 {
			c.perm[site]++
		}
	}
	return keys
}

// SyncMapRange replaces (*sync.Map).Range: collect, order, then call f.
func SyncMapRange(m *sync.Map, f func(k, v any) bool, site int32) {
	c := mapCfg.Load()
	if c == nil {
		m.Range(f)
		return
	}
	type kv struct {
		k, v any
		s    string
	}
	var all []kv
	m.Range(func(k, v any) bool {
		all = append(all, kv{k, v, keyString(k)})
		return true
	})
	keys := make(map[string]int, len(all))
	names := make([]string, 0, len(all))
	for i, e := range all {
		keys[e.s] = i
		names = append(names, e.s)
	}
	tmp := map[string]struct{}{}
	for _, n := range names {
		tmp[n] = struct{}{}
	}
	for _, n := range MapKeys(tmp, site) {
		e := all[keys[n]]
		if _, ok := m.Load(e.k); !ok {
			continue
		}
		if !f(e.k, e.v) {
			return
		}
	}
}

func keyString(k any) string {
	switch x := k.(type) {
	case string:
		return "s:" + x
	case int:
		return "i:" + strconv.Itoa(x)
	}
	return fmt.Sprintf("v:%v", k)
}

// MapSiteName returns a line-independent name of a map-order site:
// "file|Func#k" (k-th rewritten range in that function).
func MapSiteName(i int32) string {
	if i < 0 || int(i) >= len(MapSites) {
		return "site#" + strconv.Itoa(int(i))
	}
	s := MapSites[i]
	file, rest, ok := strings.Cut(s, ":")
	if !ok {
		return s
	}
	_, fn, ok := strings.Cut(rest, "|")
	if !ok {
		return s
	}
	return file + "|" + fn
}

// ReachedSites lists the sites whose MapKeys was called at least once under c.
func (c *MapConfig) ReachedSites() []int32 {
	var out []int32
	for i, n := range c.calls {
		if n > 0 {
			out = append(out, int32(i))
		}
	}
	return out
}
