// Package verifsim is the deterministic simulator runtime that /verif injects
// into a scratch copy of php-any/origami. The instrumenter inserts calls to
// Yield before every statement, rewrites `go` statements to Go, puts BeforeLock
// in front of every sync.Mutex/RWMutex Lock/RLock, wraps sync.Once.Do, and
// rewrites `range` over maps to range over MapKeys. With no simulation active
// every entry point is a nil check and the program behaves as shipped.
//
// One simulated run: real goroutines ("tasks") that are released one at a time
// by a scheduler which draws every decision from one seeded generator or from a
// recorded tape. Two back ends:
//
//   - ModeBubble: scheduler and tasks live in a testing/synctest bubble; tasks
//     park on a private channel, Config.Wait (synctest.Wait) tells the scheduler
//     when every task is durably blocked, so blocking channel operations and
//     sleeps inside the code under test are simply "not runnable" and the bubble's
//     fake clock is the only clock.
//   - ModeSpin: for -race builds. Parking and releasing use plain memory flags
//     inside norace functions, so ThreadSanitizer sees only the synchronisation
//     the code under test performs itself while execution is still strictly one
//     task at a time in tape order. No blocking operations allowed in tasks.
package verifsim

import (
	"fmt"
	"runtime"
	"sort"
	"sync"
	"sync/atomic"
	"time"
)

type Mode int

const (
	ModeBubble Mode = 1
	ModeSpin   Mode = 2
)

const MaxTasks = 256

const (
	stStarting int32 = iota
	stParked         // at a yield point, runnable
	stLockWait       // parked because a lock (or Once) it wants is busy; runnable only to re-probe
	stRunning        // released; if observed at quiescence: durably blocked in a real blocking operation
	stDone
	stCondWait // waiting on a simulated sync.Cond: runnable only after Signal/Broadcast
)

// Decision is one scheduling decision: which task runs next and for how many
// weighted yield units before it parks again.
type Decision struct {
	Task int   `json:"t"`
	Gap  int64 `json:"g"`
}

// Ev is one entry of the run's trace: a task was released while parked at Site.
type Ev struct {
	Task int32
	Site int32
	Kind int8 // 0 release from yield, 1 release from lockwait, 2 spawn, 3 done, 4 panic, 5 wake from real block
}

type Config struct {
	Mode Mode
	// Wait blocks until every other goroutine of the bubble is durably blocked
	// (synctest.Wait). Required for ModeBubble.
	Wait func()

	Seed   uint64     // seeds the schedule generator
	Replay []Decision // if non-nil decisions are taken from here first
	Strict bool       // replay must match exactly (else Diverged)

	MeanGap     int64    // mean weighted yield units between preemptions
	FocusWeight int32    // weight of yield sites inside focus files (others weigh 1)
	Focus       []string // substrings of file names that are focus files
	Stick       float64  // probability to keep the current task when it is runnable
	PCT         int      // if >0: PCT-style priorities with this many change points

	MaxSteps      int64         // cap on scheduling decisions
	DeadlockAfter time.Duration // fake time to wait with nothing runnable before declaring deadlock

	MapSeed  uint64        // seeds map-order permutations (0: with MapMode)
	MapMode  int           // 0 sorted, 1 reverse sorted, 2 seeded permutation per (site, call)
	MapSites map[int32]int // per-site override of MapMode
	NoTrace  bool
}

const (
	OutDone      = "done"
	OutDeadlock  = "deadlock"
	OutStepLimit = "steplimit"
	OutDiverged  = "diverged"
)

type PanicInfo struct {
	Task  string `json:"task"`
	Value string `json:"value"`
	Stack string `json:"stack"`
}

type BlockedInfo struct {
	Task  string `json:"task"`
	State string `json:"state"` // "blocked" (real blocking op) | "lockwait" | "parked"
	Site  string `json:"site"`
}

type Result struct {
	Outcome       string
	Decisions     []Decision
	Trace         []Ev
	Panics        []PanicInfo
	Blocked       []BlockedInfo
	Steps         int64
	Switches      int64
	FocusPreempts int64
	Yields        int64
	SimTime       time.Duration
	IdleWait      time.Duration // fake time spent waiting only to declare a deadlock
	TaskNames     []string
	MapCalls      int64
	MapPermuted   int64
}

type Task struct {
	ID   int
	Name string

	g         uintptr
	state     int32
	countdown int64
	site      int32
	turn      int32         // spin mode
	wake      chan struct{} // bubble mode
	yields    int64
	prio      int
	failEpoch int64 // scheduler epoch at which this task was last released to probe a lock
	condOn    *sync.Cond
	wlockOn   any    // the RWMutex this task waits to write-lock (writer preference)
	want      string // the lock this task last waited for (diagnostics of a deadlock)
	condWoken bool
	condSeq   int64

	panicked bool
}

type onceState struct {
	o       *sync.Once
	running *Task
	done    bool
}

type Sim struct {
	cfg      Config
	tasks    [MaxTasks]*Task
	ntasks   int32
	weights  []int32
	rng      *Rng
	kick     chan struct{}
	seq      int64         // global event sequence number for history stamps
	selN     int64         // select statements executed so far (selectseam.go)
	cleanups []*cleanupReg // registered through the collector seam (gcseam.go)
	randN    int64         // random values drawn so far (randseam.go)
	poolN    int64         // sync.Pool calls so far (poolseam.go)
	pools    map[*sync.Pool]*poolState

	res     *Result
	current *Task
	replayI int

	onces  [64]onceState
	nonces int
	wg     sync.WaitGroup

	panicsMu    sync.Mutex
	pctChange   []int64
	epoch       int64
	pendingEvs  [MaxTasks]int8
	startedReal time.Time
}

var cur atomic.Pointer[Sim]

// Active reports whether a simulation is running.
func Active() bool { return cur.Load() != nil }

// Yield is inserted before every statement of the code under test.
func Yield(site int32) {
	s := cur.Load()
	if s == nil {
		return
	}
	s.yield(site)
}

//go:norace
func (s *Sim) taskOf(g uintptr) *Task {
	n := int(s.ntasks)
	for i := 0; i < n; i++ {
		t := s.tasks[i]
		if t != nil && t.g == g {
			return t
		}
	}
	return nil
}

//go:norace
func (s *Sim) yield(site int32) {
	t := s.taskOf(getg())
	if t == nil {
		return
	}
	w := int64(1)
	if site >= 0 && int(site) < len(s.weights) {
		w = int64(s.weights[site])
	}
	t.yields++
	t.countdown -= w
	if t.countdown > 0 {
		return
	}
	t.site = site
	s.park(t, stParked)
}

//go:norace
//go:noinline
func (s *Sim) park(t *Task, st int32) {
	if s.cfg.Mode == ModeSpin {
		t.state = st
		for t.turn == 0 {
			runtime.Gosched()
		}
		t.turn = 0
		t.state = stRunning
		return
	}
	t.state = st
	select {
	case s.kick <- struct{}{}:
	default:
	}
	<-t.wake
	t.state = stRunning
}

//go:norace
//go:noinline
func (s *Sim) release(t *Task, gap int64) {
	t.countdown = gap
	if s.cfg.Mode == ModeSpin {
		t.state = stRunning
		t.turn = 1
		return
	}
	t.state = stRunning
	t.wake <- struct{}{}
}

// CurrentTask returns the simulated task of the calling goroutine, or nil.
func CurrentTask() *Task {
	s := cur.Load()
	if s == nil {
		return nil
	}
	return s.taskOf(getg())
}

// TaskName returns the name of the calling task ("" outside a simulation).
//
//go:norace
func TaskName() string {
	t := CurrentTask()
	if t == nil {
		return ""
	}
	return t.Name
}

// Stamp returns the next global event sequence number. Histories are stamped
// with it (never with time). Safe in both modes: only one task runs at a time.
//
//go:norace
//go:noinline
func Stamp() int64 {
	s := cur.Load()
	if s == nil {
		return 0
	}
	s.seq++
	return s.seq
}

// Checkpoint is a yield point for harness code (which is not instrumented):
// call it after any blocking operation the harness performs itself, so that a
// task woken by the runtime parks before it touches shared harness state.
//
//go:norace
func Checkpoint() {
	s := cur.Load()
	if s == nil {
		return
	}
	s.yield(-3)
}

// Gate is an explicit yield point with weight "always park"; harness-registered
// script functions call it.
//
//go:norace
func Gate() {
	s := cur.Load()
	if s == nil {
		return
	}
	t := s.taskOf(getg())
	if t == nil {
		return
	}
	t.site = -1
	t.countdown = 0
	s.park(t, stParked)
}

// Spawn registers a simulated task. Called by the harness from inside Run's
// setup function, and by Go below from running tasks.
//
//go:norace
func (s *Sim) Spawn(name string, fn func()) *Task {
	id := int(s.ntasks)
	if id >= MaxTasks {
		panic("verifsim: too many tasks")
	}
	t := &Task{ID: id, Name: name, state: stStarting, site: -2}
	if s.cfg.Mode == ModeBubble {
		t.wake = make(chan struct{})
	}
	s.tasks[id] = t
	s.ntasks = int32(id + 1)
	if s.cfg.Mode == ModeSpin {
		s.wg.Add(1)
	}
	go s.taskMain(t, fn)
	return t
}

func (s *Sim) taskMain(t *Task, fn func()) {
	s.setG(t)
	s.park(t, stParked)
	defer s.taskExit(t)
	fn()
}

//go:norace
//go:noinline
func (s *Sim) setG(t *Task) { t.g = getg() }

func (s *Sim) taskExit(t *Task) {
	if r := recover(); r != nil {
		buf := make([]byte, 16<<10)
		buf = buf[:runtime.Stack(buf, false)]
		s.panicsMu.Lock()
		s.res.Panics = append(s.res.Panics, PanicInfo{Task: t.Name, Value: fmt.Sprint(r), Stack: string(buf)})
		s.panicsMu.Unlock()
		s.markPanicked(t)
	}
	s.finish(t)
	if s.cfg.Mode == ModeSpin {
		s.wg.Done()
	}
}

//go:norace
//go:noinline
func (s *Sim) markPanicked(t *Task) { t.panicked = true }

//go:norace
//go:noinline
func (s *Sim) finish(t *Task) {
	t.g = 0
	t.state = stDone
	if s.cfg.Mode == ModeBubble {
		select {
		case s.kick <- struct{}{}:
		default:
		}
	}
}

// Go replaces `go f()` in instrumented code.
func Go(fn func()) {
	s := cur.Load()
	if s == nil {
		go fn()
		return
	}
	t := s.taskOf(getg())
	if t == nil {
		go fn()
		return
	}
	s.Spawn(fmt.Sprintf("%s/go%d", t.Name, s.ntasksPlain()), fn)
}

//go:norace
func (s *Sim) ntasksPlain() int { return int(s.ntasks) }

const (
	LockW = 0
	LockR = 1
)

type tryLocker interface {
	TryLock() bool
	Unlock()
}
type tryRLocker interface {
	TryRLock() bool
	RUnlock()
}

// BeforeLock is inserted before X.Lock() / X.RLock() on sync.Mutex / RWMutex.
// Because one task runs at a time, a lock that is busy is held by a parked
// task; blocking in the real Lock would stall the simulation, so the task
// parks as lock-waiting and re-probes when the scheduler releases it again.
func BeforeLock(mu any, kind int) {
	s := cur.Load()
	if s == nil {
		return
	}
	t := s.taskOf(getg())
	if t == nil {
		return
	}
	waited := false
	for {
		free := false
		if kind == LockR {
			if l, ok := mu.(tryRLocker); ok {
				// writer preference, as in sync.RWMutex: once a writer waits in Lock, later RLock calls wait behind
				// it (so a task that read-locks twice with a writer arriving in between deadlocks here as it does there)
				if !s.writerWaits(mu, t) && l.TryRLock() {
					l.RUnlock()
					free = true
				}
			} else {
				free = true
			}
		} else {
			if l, ok := mu.(tryLocker); ok {
				if l.TryLock() {
					l.Unlock()
					free = true
				}
			} else {
				free = true
			}
		}
		if free {
			if waited {
				s.progress()
			}
			s.setWriteWait(t, nil)
			return
		}
		waited = true
		if kind != LockR {
			if _, rw := mu.(tryRLocker); rw {
				s.setWriteWait(t, mu)
			}
		}
		s.noteWant(t, mu, kind)
		s.park(t, stLockWait)
	}
}

//go:norace
//go:noinline
func (s *Sim) setWriteWait(t *Task, mu any) { t.wlockOn = mu }

//go:norace
//go:noinline
func (s *Sim) noteWant(t *Task, mu any, kind int) {
	t.want = fmt.Sprintf("%T@%p/%s", mu, mu, map[int]string{LockW: "W", LockR: "R"}[kind])
}

// writerWaits: is a task other than t parked in Lock() of the RWMutex mu?
//
//go:norace
//go:noinline
func (s *Sim) writerWaits(mu any, t *Task) bool {
	n := int(s.ntasks)
	for i := 0; i < n; i++ {
		if o := s.tasks[i]; o != nil && o != t && o.wlockOn == mu {
			return true
		}
	}
	return false
}

//go:norace
//go:noinline
func (s *Sim) progress() { s.epoch++ }

// CondWait / CondSignal / CondBroadcast replace the methods of sync.Cond in
// instrumented code. The real Cond.Wait re-acquires its mutex inside the
// standard library, where no lock probe can be placed; a task blocking there is
// not durably blocked and would stall the simulation. So condition variables
// are fully simulated: waiters queue on the simulator (FIFO, like the runtime's
// ticket order) and are made runnable by Signal/Broadcast.
func CondWait(c *sync.Cond) {
	s := cur.Load()
	if s == nil {
		c.Wait()
		return
	}
	t := s.taskOf(getg())
	if t == nil {
		c.Wait()
		return
	}
	s.condEnqueue(t, c)
	c.L.Unlock()
	for !s.condIsWoken(t) {
		s.park(t, stCondWait)
	}
	s.condClear(t)
	BeforeLock(c.L, LockW)
	c.L.Lock()
}

//go:norace
//go:noinline
func (s *Sim) condEnqueue(t *Task, c *sync.Cond) {
	s.seq++
	t.condOn, t.condWoken, t.condSeq = c, false, s.seq
}

//go:norace
//go:noinline
func (s *Sim) condIsWoken(t *Task) bool { return t.condWoken }

//go:norace
//go:noinline
func (s *Sim) condClear(t *Task) { t.condOn, t.condWoken = nil, false }

//go:norace
//go:noinline
func (s *Sim) condWake(c *sync.Cond, all bool) {
	for {
		var first *Task
		n := int(s.ntasks)
		for i := 0; i < n; i++ {
			t := s.tasks[i]
			if t != nil && t.condOn == c && !t.condWoken && (first == nil || t.condSeq < first.condSeq) {
				first = t
			}
		}
		if first == nil {
			return
		}
		first.condWoken = true
		s.epoch++
		if !all {
			return
		}
	}
}

func CondSignal(c *sync.Cond) {
	s := cur.Load()
	if s == nil || s.taskOf(getg()) == nil {
		c.Signal()
		return
	}
	s.condWake(c, false)
}

func CondBroadcast(c *sync.Cond) {
	s := cur.Load()
	if s == nil || s.taskOf(getg()) == nil {
		c.Broadcast()
		return
	}
	s.condWake(c, true)
}

// OnceDo replaces o.Do(f) for sync.Once values.
func OnceDo(o *sync.Once, f func()) {
	s := cur.Load()
	if s == nil {
		o.Do(f)
		return
	}
	t := s.taskOf(getg())
	if t == nil {
		o.Do(f)
		return
	}
	for {
		st := s.onceFor(o)
		if st == nil || st.done || st.running == t {
			o.Do(f)
			return
		}
		if st.running == nil {
			s.onceSet(st, t, false)
			o.Do(f)
			s.onceSet(st, nil, true)
			return
		}
		s.park(t, stLockWait)
	}
}

//go:norace
//go:noinline
func (s *Sim) onceFor(o *sync.Once) *onceState {
	for i := 0; i < s.nonces; i++ {
		if s.onces[i].o == o {
			return &s.onces[i]
		}
	}
	if s.nonces >= len(s.onces) {
		return nil
	}
	s.onces[s.nonces].o = o
	s.nonces++
	return &s.onces[s.nonces-1]
}

//go:norace
//go:noinline
func (s *Sim) onceSet(st *onceState, t *Task, done bool) {
	st.running = t
	st.done = done
}

// Run executes one simulated run. setup registers the initial tasks with
// s.Spawn; Run then schedules until every task is done, the run deadlocks, or
// the step budget is exhausted.
func Run(cfg Config, setup func(s *Sim)) *Result {
	if cfg.MeanGap <= 0 {
		cfg.MeanGap = 30
	}
	if cfg.FocusWeight <= 0 {
		cfg.FocusWeight = 1
	}
	if cfg.MaxSteps <= 0 {
		cfg.MaxSteps = 200000
	}
	if cfg.DeadlockAfter <= 0 {
		cfg.DeadlockAfter = 24 * time.Hour
	}
	s := &Sim{cfg: cfg, rng: NewRng(cfg.Seed), res: &Result{}, startedReal: time.Now()}
	if cfg.Mode == ModeBubble {
		s.kick = make(chan struct{}, 1)
	}
	s.weights = siteWeights(cfg.Focus, cfg.FocusWeight)
	mc := &MapConfig{Mode: cfg.MapMode, Seed: cfg.MapSeed, Sites: cfg.MapSites}
	SetMapConfig(mc)
	defer SetMapConfig(nil)
	if !cur.CompareAndSwap(nil, s) {
		panic("verifsim: nested Run")
	}
	t0 := time.Now()
	setup(s)
	s.schedule()
	if cfg.Mode == ModeSpin && s.res.Outcome == OutDone {
		// real synchronisation only at the very end of a run: the harness may
		// then read what the tasks recorded without racing with them
		s.wg.Wait()
	}
	cur.Store(nil)
	s.res.SimTime = time.Since(t0) - s.res.IdleWait
	s.collect()
	return s.res
}

//go:norace
func (s *Sim) collect() {
	// several tasks can be woken at once (close with blocked senders) and then
	// panic concurrently: order their reports by task, not by arrival
	sort.SliceStable(s.res.Panics, func(i, j int) bool { return s.res.Panics[i].Task < s.res.Panics[j].Task })
	n := int(s.ntasks)
	for i := 0; i < n; i++ {
		t := s.tasks[i]
		s.res.TaskNames = append(s.res.TaskNames, t.Name)
		s.res.Yields += t.yields
		if t.state != stDone {
			st := "parked"
			switch t.state {
			case stRunning, stStarting:
				st = "blocked"
			case stLockWait:
				st = "lockwait"
			case stCondWait:
				st = "condwait"
			}
			s.res.Blocked = append(s.res.Blocked, BlockedInfo{Task: t.Name, State: st, Site: SiteString(t.site) + blockedWant(t, st)})
		}
	}
	if mc := mapCfg.Load(); mc != nil {
		for i := range mc.calls {
			s.res.MapCalls += mc.calls[i]
			s.res.MapPermuted += mc.perm[i]
		}
	}
}

// settle waits until no task is executing. Returns false on a real-time
// watchdog expiry (spin mode only; the bubble relies on Config.Wait).
//
//go:norace
func (s *Sim) settle() {
	if s.cfg.Mode == ModeBubble {
		s.cfg.Wait()
		return
	}
	for {
		busy := false
		n := int(s.ntasks)
		for i := 0; i < n; i++ {
			st := s.tasks[i].state
			if st == stRunning || st == stStarting {
				busy = true
				break
			}
		}
		if !busy {
			return
		}
		runtime.Gosched()
	}
}

//go:norace
func (s *Sim) schedule() {
	res := s.res
	var runnable []*Task
	if s.cfg.PCT > 0 {
		for i := 0; i < s.cfg.PCT; i++ {
			s.pctChange = append(s.pctChange, int64(s.rng.Intn(int(minI64(s.cfg.MaxSteps, 2000)))))
		}
	}
	idleRounds := 0
	for {
		s.settle()
		if s.cfg.Mode == ModeBubble {
			select {
			case <-s.kick:
			default:
			}
		}
		runnable = runnable[:0]
		alive, blocked, lockers := 0, 0, 0
		n := int(s.ntasks)
		for i := 0; i < n; i++ {
			t := s.tasks[i]
			switch t.state {
			case stParked:
				runnable = append(runnable, t)
				alive++
			case stLockWait:
				runnable = append(runnable, t)
				lockers++
				alive++
			case stCondWait:
				alive++
				if t.condWoken {
					runnable = append(runnable, t)
				}
			case stRunning, stStarting:
				// durably blocked in a real blocking operation: when the
				// runtime wakes it, it must park at its first yield.
				t.countdown = 0
				blocked++
				alive++
			case stDone:
				if s.current == t {
					s.current = nil
				}
			}
		}
		if alive == 0 {
			res.Outcome = OutDone
			return
		}
		if res.Steps >= s.cfg.MaxSteps {
			res.Outcome = OutStepLimit
			return
		}
		// a lock-waiting task is worth releasing only if somebody else ran
		// since its last failed probe (nothing can have freed the lock otherwise)
		elig := runnable[:0]
		for _, t := range runnable {
			if t.state == stLockWait && t.failEpoch >= s.epoch {
				continue
			}
			elig = append(elig, t)
		}
		runnable = elig
		if len(runnable) == 0 {
			if s.cfg.Mode == ModeSpin || blocked == 0 {
				res.Outcome = OutDeadlock
				return
			}
			// everything is blocked in real operations or sleeping: block too so
			// the bubble's fake clock can advance to the next timer.
			idleRounds++
			timer := time.NewTimer(s.cfg.DeadlockAfter)
			select {
			case <-s.kick:
				timer.Stop()
				s.epoch++ // a task woke up by itself: lock holders may have moved
				continue
			case <-timer.C:
				res.Outcome = OutDeadlock
				res.IdleWait += s.cfg.DeadlockAfter
				return
			}
		}
		t, gap, ok := s.decide(runnable)
		if !ok {
			res.Outcome = OutDiverged
			return
		}
		res.Steps++
		// The epoch counts releases of tasks that can make real progress. A
		// lock-waiting task that is released only re-probes; if that counted,
		// two waiters would keep each other "eligible" for ever while the
		// (lower-priority) lock holder never runs.
		if t.state != stLockWait {
			s.epoch++
		}
		t.failEpoch = s.epoch
		if s.current != nil && s.current != t {
			res.Switches++
			if s.current.state == stParked && s.isFocus(s.current.site) {
				res.FocusPreempts++
			}
		}
		if !s.cfg.NoTrace {
			k := int8(0)
			if t.state == stLockWait {
				k = 1
			}
			res.Trace = append(res.Trace, Ev{Task: int32(t.ID), Site: t.site, Kind: k})
		}
		res.Decisions = append(res.Decisions, Decision{Task: t.ID, Gap: gap})
		s.current = t
		s.release(t, gap)
	}
}

func minI64(a, b int64) int64 {
	if a < b {
		return a
	}
	return b
}

//go:norace
func (s *Sim) isFocus(site int32) bool {
	return site >= 0 && int(site) < len(s.weights) && s.weights[site] > 1
}

//go:norace
func (s *Sim) decide(runnable []*Task) (*Task, int64, bool) {
	if s.replayI < len(s.cfg.Replay) {
		d := s.cfg.Replay[s.replayI]
		s.replayI++
		for _, t := range runnable {
			if t.ID == d.Task {
				return t, d.Gap, true
			}
		}
		if s.cfg.Strict {
			return nil, 0, false
		}
		// lenient replay (used while minimising): keep the current task if it
		// can run, else the lowest runnable id
		return s.fallback(runnable), d.Gap, true
	}
	if s.cfg.Replay != nil {
		if s.cfg.Strict {
			return nil, 0, false
		}
		// tape exhausted in lenient mode: run without further preemption
		return s.fallback(runnable), 1 << 40, true
	}
	var t *Task
	if s.cfg.PCT > 0 {
		for _, c := range s.pctChange {
			if c == s.res.Steps && s.current != nil {
				s.current.prio = -int(s.res.Steps) - 1
			}
		}
		for _, r := range runnable {
			if r.prio == 0 {
				r.prio = 1 + s.rng.Intn(1000)
			}
			if t == nil || r.prio > t.prio {
				t = r
			}
		}
	} else {
		if s.current != nil && s.current.state == stParked && s.rng.Bool(s.cfg.Stick) {
			t = s.current
		} else {
			t = runnable[s.rng.Intn(len(runnable))]
		}
	}
	gap := 1 + int64(s.rng.Uint64()%uint64(2*s.cfg.MeanGap))
	return t, gap, true
}

//go:norace
func (s *Sim) fallback(runnable []*Task) *Task {
	for _, t := range runnable {
		if t == s.current && t.state == stParked {
			return t
		}
	}
	for _, t := range runnable {
		if t.state == stParked {
			return t
		}
	}
	return runnable[0]
}

//go:norace
func blockedWant(t *Task, st string) string {
	if st == "lockwait" && t.want != "" {
		return " wants " + t.want
	}
	return ""
}
