package verifsim

import "reflect"

// Select seam. A Go `select` with several ready cases picks one of them with the
// runtime's own (unseeded) random generator: one more source of nondeterminism
// that replay cannot reproduce. verif-instrument rewrites every select statement
// with two or more communication cases into
//
//	switch __vs := verifsim.Select(site, hasDefault, verifsim.SelRecv(c1), verifsim.SelSend(c2, x)); __vs.I { case 0: ... }
//
// Select polls the cases one at a time in an order drawn from the run's seed,
// the site and the number of selects executed so far in this run (so it is a
// pure function of the seed and the execution path, as map orders are), takes
// the first that is ready, and only if none is ready (and there is no default)
// blocks in a real select over all of them, which inside a synctest bubble is a
// durable block like any channel operation.

type SelCase struct {
	dir  reflect.SelectDir
	ch   reflect.Value
	send reflect.Value
}

type SelResult struct {
	I  int // index of the chosen case; len(cases) for default
	V  reflect.Value
	Ok bool
}

func SelRecv[T any](ch <-chan T) SelCase {
	return SelCase{dir: reflect.SelectRecv, ch: reflect.ValueOf(ch)}
}

func SelSend[T any](ch chan<- T, v T) SelCase {
	return SelCase{dir: reflect.SelectSend, ch: reflect.ValueOf(ch), send: reflect.ValueOf(&v).Elem()}
}

// SelVal converts the received value back to the channel's element type.
func SelVal[T any](_ <-chan T, rv reflect.Value) T {
	var z T
	if rv.IsValid() {
		reflect.ValueOf(&z).Elem().Set(rv)
	}
	return z
}

// plain counters, touched only in norace helpers: no synchronisation of the simulator's own
// may add happens-before edges between tasks (the race detector is an oracle for C10)
var selCalls, selPolledReady, selBlocked int64

// SelectStats returns (selects executed, decided by polling, decided after blocking) since process start.
//
//go:norace
func SelectStats() (int64, int64, int64) { return selCalls, selPolledReady, selBlocked }

//go:norace
func selCount(p *int64) { *p++ }

//go:norace
func (s *Sim) nextSel() int64 { s.selN++; return s.selN }

func Select(site int32, hasDefault bool, cases ...SelCase) SelResult {
	n := len(cases)
	rc := make([]reflect.SelectCase, n)
	for i, c := range cases {
		rc[i] = reflect.SelectCase{Dir: c.dir, Chan: c.ch, Send: c.send}
	}
	selCount(&selCalls)
	order := make([]int, n)
	for i := range order {
		order[i] = i
	}
	if s := cur.Load(); s != nil {
		r := NewRng(Mix(s.cfg.Seed^0x5e1ec7, uint64(uint32(site))<<32|uint64(s.nextSel())))
		for i := n - 1; i > 0; i-- {
			j := r.Intn(i + 1)
			order[i], order[j] = order[j], order[i]
		}
	}
	for _, i := range order {
		if !rc[i].Chan.IsValid() || rc[i].Chan.IsNil() {
			continue // a nil channel is never ready
		}
		chosen, rv, ok := reflect.Select([]reflect.SelectCase{rc[i], {Dir: reflect.SelectDefault}})
		if chosen == 0 {
			selCount(&selPolledReady)
			return SelResult{I: i, V: rv, Ok: ok}
		}
	}
	if hasDefault {
		return SelResult{I: n}
	}
	selCount(&selBlocked)
	chosen, rv, ok := reflect.Select(rc)
	Checkpoint()
	return SelResult{I: chosen, V: rv, Ok: ok}
}
