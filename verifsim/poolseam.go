package verifsim

import "sync"

// sync.Pool seam. What Get returns depends on per-P caches and on when the garbage
// collector last ran: one more source of nondeterminism, and a classic place for
// aliasing bugs (an object handed back to the pool while still in use). In
// instrumented code p.Get()/p.Put(x) are redirected here. Inside a bubble
// simulation each pool is a free list owned by the run: Get takes a seeded
// pseudo-random element of it (reuse is what exposes aliasing), in one call out of
// eight it behaves as if the collector had just emptied the pool (legal for a
// sync.Pool), and an empty list falls through to New. The choices are a pure
// function of the run's seed and the number of pool calls so far. Under the
// race-detector back end the real sync.Pool is kept: its Put→Get ordering is
// synchronisation the detector must see.

type poolState struct{ free []any }

//go:norace
func (s *Sim) poolFor(p *sync.Pool) *poolState {
	if s.pools == nil {
		s.pools = map[*sync.Pool]*poolState{}
	}
	st := s.pools[p]
	if st == nil {
		st = &poolState{}
		s.pools[p] = st
	}
	return st
}

//go:norace
func (s *Sim) poolRng() *Rng {
	s.poolN++
	return NewRng(Mix(s.cfg.Seed^0x9001, uint64(s.poolN)))
}

func simForPool() *Sim {
	s := cur.Load()
	if s == nil || s.cfg.Mode == ModeSpin {
		return nil
	}
	return s
}

func PoolGet(p *sync.Pool) any {
	s := simForPool()
	if s == nil {
		return p.Get()
	}
	st := s.poolFor(p)
	r := s.poolRng()
	if n := len(st.free); n > 0 {
		if r.Intn(8) == 0 {
			st.free = nil // as if a collection had emptied the pool
		} else {
			i := r.Intn(n)
			x := st.free[i]
			st.free[i] = st.free[n-1]
			st.free = st.free[:n-1]
			return x
		}
	}
	if p.New != nil {
		return p.New()
	}
	return nil
}

func PoolPut(p *sync.Pool, x any) {
	s := simForPool()
	if s == nil {
		p.Put(x)
		return
	}
	if x == nil {
		return
	}
	st := s.poolFor(p)
	st.free = append(st.free, x)
}
