package verifsim

// getg returns the address of the running goroutine's g structure: a stable
// identity for the goroutine while it lives. Implemented in getg_amd64.s.
func getg() uintptr
