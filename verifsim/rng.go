package verifsim

// Rng is a small splitmix64/xorshift generator. It is the only source of
// randomness in a simulated run; one seed is one run.
type Rng struct{ s uint64 }

func Mix(a, b uint64) uint64 {
	x := a*0x9E3779B97F4A7C15 ^ (b + 0xD1B54A32D192ED03)
	x ^= x >> 30
	x *= 0xBF58476D1CE4E5B9
	x ^= x >> 27
	x *= 0x94D049BB133111EB
	x ^= x >> 31
	return x
}

func NewRng(seed uint64) *Rng { return &Rng{s: Mix(seed, 0x1234567)} }

func (r *Rng) Uint64() uint64 {
	r.s += 0x9E3779B97F4A7C15
	z := r.s
	z = (z ^ (z >> 30)) * 0xBF58476D1CE4E5B9
	z = (z ^ (z >> 27)) * 0x94D049BB133111EB
	return z ^ (z >> 31)
}

// Intn returns a value in [0,n). n<=0 returns 0.
func (r *Rng) Intn(n int) int {
	if n <= 1 {
		return 0
	}
	return int(r.Uint64() % uint64(n))
}

func (r *Rng) Float() float64 { return float64(r.Uint64()>>11) / float64(1<<53) }

func (r *Rng) Bool(p float64) bool { return r.Float() < p }

// Pick returns one element of xs.
func Pick[T any](r *Rng, xs []T) T { return xs[r.Intn(len(xs))] }

// Perm returns a permutation of 0..n-1.
func (r *Rng) Perm(n int) []int {
	p := make([]int, n)
	for i := range p {
		p[i] = i
	}
	for i := n - 1; i > 0; i-- {
		j := r.Intn(i + 1)
		p[i], p[j] = p[j], p[i]
	}
	return p
}
