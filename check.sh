#!/bin/sh
# usage: check.sh <ID> <quick|thorough>   — thin wrapper so MANIFEST commands stay short
cd "$(dirname "$0")"
. ./env.sh
[ -x bin/verif ] && [ -x bin/verif-instrument ] || ./setup.sh >/dev/null || exit 2
exec ./bin/verif check "$1" --tier "${2:-quick}"
