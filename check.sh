#!/bin/sh
# usage: check.sh <ID> <quick|thorough>   — thin wrapper so MANIFEST commands stay short
cd "$(dirname "$0")"
. ./env.sh
# every check builds an instrumented copy of /repo under a new path, so the Go build cache only grows: above 30 GB,
# entries not used for two hours are dropped (the cache is a cache; nothing a check needs lives only there)
gc=$(go env GOCACHE 2>/dev/null); if [ -n "$gc" ] && [ -d "$gc" ] && [ "$(du -sm "$gc" 2>/dev/null | cut -f1)" -gt 30000 ]; then find "$gc" -type f -mmin +120 -delete 2>/dev/null; fi
[ -x bin/verif ] && [ -x bin/verif-instrument ] || ./setup.sh >/dev/null || exit 2
exec ./bin/verif check "$1" --tier "${2:-quick}"
