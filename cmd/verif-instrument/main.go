// verif-instrument rewrites a scratch copy of php-any/origami so that every
// source of nondeterminism the properties depend on goes through verifsim:
//
//   - verifsim.Yield(site) before every statement;
//   - `go func(){…}()` → verifsim.Go(func(){…});
//   - verifsim.BeforeLock(&mu, kind) before mu.Lock()/mu.RLock() on sync.Mutex/RWMutex;
//   - once.Do(f) → verifsim.OnceDo(&once, f);
//   - `for k, v := range m` over maps with ordered keys → loop over verifsim.MapKeys;
//   - (*sync.Map).Range(f) → verifsim.SyncMapRange(&m, f, site).
//
// All edits are textual and keep every original token on its original line, so
// stack traces and positions still refer to /repo's files. Whatever cannot be
// rewritten is counted and reported in report.json (never silently skipped).
package main

import (
	"encoding/json"
	"flag"
	"fmt"
	"go/ast"
	"go/token"
	"go/types"
	"os"
	"path/filepath"
	"sort"
	"strings"

	"golang.org/x/tools/go/packages"
)

type edit struct {
	off, end int // replace [off,end) ; off==end is an insertion
	text     string
	seq      int
}

type fileEdits struct {
	path  string
	src   []byte
	edits []edit
}

type Report struct {
	Packages            int      `json:"packages"`
	Files               int      `json:"files"`
	YieldSites          int      `json:"yield_sites"`
	GoRewritten         int      `json:"go_rewritten"`
	GoUncontrolled      []string `json:"go_uncontrolled"`
	LockProbes          int      `json:"lock_probes"`
	LockUncontrolled    []string `json:"lock_uncontrolled"`
	OnceWrapped         int      `json:"once_wrapped"`
	MapRangeRewritten   int      `json:"map_range_rewritten"`
	MapRangeUncontrol   []string `json:"map_range_uncontrolled"`
	SyncMapRange        int      `json:"syncmap_range_rewritten"`
	SelectSites         []string `json:"uncontrolled_select_sites"`
	SelectRewritten     int      `json:"select_rewritten"`
	TimeNowSites        []string `json:"time_now_sites"`
	RandSites           []string `json:"rand_sites"`
	RandRewritten       int      `json:"rand_calls_rewritten"`
	CleanupRewritten    int      `json:"runtime_addcleanup_rewritten"`
	FinalizerSites      []string `json:"runtime_setfinalizer_uncontrolled"`
	PoolRewritten       int      `json:"syncpool_calls_rewritten"`
	PoolUncontrolled    []string `json:"syncpool_uncontrolled"`
	AfterFuncSites      []string `json:"afterfunc_sites"`
	CondWaitSites       []string `json:"cond_uncontrolled_sites"`
	CondRewritten       int      `json:"cond_calls_rewritten"`
	WaitGroupWaitSites  []string `json:"waitgroup_wait_sites"`
	SkippedPackages     []string `json:"skipped_packages"`
	TypeErrors          []string `json:"type_errors"`
	MapSiteTable        []string `json:"map_sites"`
	InstrumentedPkgList []string `json:"instrumented_packages"`
}

var (
	modPath   string
	root      string
	rep       Report
	siteFiles []string
	siteFile  []int
	siteLine  []int
	mapSites  []string
	seq       int
)

func main() {
	flag.StringVar(&root, "dir", ".", "module root of the scratch copy")
	skip := flag.String("skip", "verifsim,verifharness", "comma separated package path fragments not to instrument")
	flag.Parse()
	root, _ = filepath.Abs(root)

	cfg := &packages.Config{
		Mode: packages.NeedName | packages.NeedFiles | packages.NeedCompiledGoFiles | packages.NeedSyntax |
			packages.NeedTypes | packages.NeedTypesInfo | packages.NeedImports | packages.NeedDeps | packages.NeedModule,
		Dir:   root,
		Tests: false,
	}
	pkgs, err := packages.Load(cfg, "./...")
	if err != nil {
		fmt.Fprintln(os.Stderr, "verif-instrument: load:", err)
		os.Exit(2)
	}
	skips := strings.Split(*skip, ",")
	sort.Slice(pkgs, func(i, j int) bool { return pkgs[i].PkgPath < pkgs[j].PkgPath })
	var all []*fileEdits
	for _, p := range pkgs {
		if p.Module != nil && modPath == "" {
			modPath = p.Module.Path
		}
		skipIt := false
		for _, s := range skips {
			if s != "" && strings.Contains(p.PkgPath, "/"+s) {
				skipIt = true
			}
		}
		if skipIt {
			rep.SkippedPackages = append(rep.SkippedPackages, p.PkgPath)
			continue
		}
		for _, e := range p.Errors {
			rep.TypeErrors = append(rep.TypeErrors, e.Error())
		}
		if len(p.Errors) > 0 {
			continue
		}
		rep.Packages++
		rep.InstrumentedPkgList = append(rep.InstrumentedPkgList, p.PkgPath)
		for i, f := range p.Syntax {
			path := p.CompiledGoFiles[i]
			if !strings.HasPrefix(path, root+string(filepath.Separator)) || !strings.HasSuffix(path, ".go") {
				continue
			}
			fe := instrumentFile(p, f, path)
			if fe != nil {
				all = append(all, fe)
			}
		}
	}
	if len(rep.TypeErrors) > 0 {
		for _, e := range rep.TypeErrors {
			fmt.Fprintln(os.Stderr, "verif-instrument: type error:", e)
		}
		os.Exit(2)
	}
	for _, fe := range all {
		if err := fe.apply(); err != nil {
			fmt.Fprintln(os.Stderr, "verif-instrument:", err)
			os.Exit(2)
		}
		rep.Files++
	}
	rep.YieldSites = len(siteFile)
	rep.MapSiteTable = mapSites
	writeSites()
	b, _ := json.MarshalIndent(&rep, "", " ")
	os.WriteFile(filepath.Join(root, "verifsim", "report.json"), b, 0o644)
	fmt.Printf("instrumented %d packages, %d files: %d yields, %d go, %d lock probes, %d once, %d map ranges (+%d uncontrolled), %d sync.Map ranges, %d selects rewritten (+%d uncontrolled)\n",
		rep.Packages, rep.Files, rep.YieldSites, rep.GoRewritten, rep.LockProbes, rep.OnceWrapped,
		rep.MapRangeRewritten, len(rep.MapRangeUncontrol), rep.SyncMapRange, rep.SelectRewritten, len(rep.SelectSites))
}

func writeSites() {
	var b strings.Builder
	b.WriteString("// Code generated by verif-instrument. DO NOT EDIT.\n\npackage verifsim\n\nfunc init() {\n")
	b.WriteString("\tSiteFiles = []string{\n")
	for _, f := range siteFiles {
		fmt.Fprintf(&b, "\t\t%q,\n", f)
	}
	b.WriteString("\t}\n\tSiteFile = []uint16{")
	for i, f := range siteFile {
		if i%32 == 0 {
			b.WriteString("\n\t\t")
		}
		fmt.Fprintf(&b, "%d,", f)
	}
	b.WriteString("\n\t}\n\tSiteLine = []int32{")
	for i, l := range siteLine {
		if i%32 == 0 {
			b.WriteString("\n\t\t")
		}
		fmt.Fprintf(&b, "%d,", l)
	}
	b.WriteString("\n\t}\n\tMapSites = []string{\n")
	for _, m := range mapSites {
		fmt.Fprintf(&b, "\t\t%q,\n", m)
	}
	b.WriteString("\t}\n}\n")
	if err := os.WriteFile(filepath.Join(root, "verifsim", "sites_gen.go"), []byte(b.String()), 0o644); err != nil {
		fmt.Fprintln(os.Stderr, "verif-instrument:", err)
		os.Exit(2)
	}
}

func (fe *fileEdits) add(off, end int, text string) {
	seq++
	fe.edits = append(fe.edits, edit{off, end, text, seq})
}

func (fe *fileEdits) apply() error {
	if len(fe.edits) == 0 {
		return nil
	}
	sort.SliceStable(fe.edits, func(i, j int) bool {
		a, b := fe.edits[i], fe.edits[j]
		if a.off != b.off {
			return a.off < b.off
		}
		// insertions at the same offset keep creation order; an insertion
		// sorts before a replacement starting at the same offset
		if (a.off == a.end) != (b.off == b.end) {
			return a.off == a.end
		}
		return a.seq < b.seq
	})
	var out []byte
	pos := 0
	for _, e := range fe.edits {
		if e.off < pos {
			return fmt.Errorf("%s: overlapping edits at offset %d", fe.path, e.off)
		}
		out = append(out, fe.src[pos:e.off]...)
		out = append(out, e.text...)
		pos = e.end
	}
	out = append(out, fe.src[pos:]...)
	return os.WriteFile(fe.path, out, 0o644)
}

func rel(path string) string {
	r, err := filepath.Rel(root, path)
	if err != nil {
		return path
	}
	return filepath.ToSlash(r)
}

func isSyncNamed(t types.Type, name string) bool {
	if p, ok := t.(*types.Pointer); ok {
		t = p.Elem()
	}
	n, ok := t.(*types.Named)
	if !ok {
		return false
	}
	o := n.Obj()
	return o.Pkg() != nil && o.Pkg().Path() == "sync" && o.Name() == name
}

func simpleAddressable(e ast.Expr) bool {
	switch x := e.(type) {
	case *ast.Ident:
		return true
	case *ast.SelectorExpr:
		return simpleAddressable(x.X)
	case *ast.StarExpr:
		return simpleAddressable(x.X)
	case *ast.ParenExpr:
		return simpleAddressable(x.X)
	case *ast.IndexExpr:
		return simpleAddressable(x.X) && simpleAddressable(x.Index)
	case *ast.BasicLit:
		return true
	}
	return false
}

func containsFuncLit(n ast.Node) bool {
	found := false
	ast.Inspect(n, func(x ast.Node) bool {
		if _, ok := x.(*ast.FuncLit); ok {
			found = true
		}
		return !found
	})
	return found
}

func instrumentFile(p *packages.Package, f *ast.File, path string) *fileEdits {
	src, err := os.ReadFile(path)
	if err != nil {
		fmt.Fprintln(os.Stderr, "verif-instrument:", err)
		os.Exit(2)
	}
	fe := &fileEdits{path: path, src: src}
	tf := p.Fset.File(f.Pos())
	off := func(pos token.Pos) int { return tf.Offset(pos) }
	text := func(n ast.Node) string { return string(src[off(n.Pos()):off(n.End())]) }
	relp := rel(path)
	fileIdx := -1
	newSite := func(pos token.Pos) int {
		if fileIdx < 0 {
			fileIdx = len(siteFiles)
			siteFiles = append(siteFiles, relp)
		}
		siteFile = append(siteFile, fileIdx)
		siteLine = append(siteLine, tf.Line(pos))
		return len(siteFile) - 1
	}
	where := func(pos token.Pos) string { return fmt.Sprintf("%s:%d", relp, tf.Line(pos)) }
	info := p.TypesInfo

	// method call on a sync type? returns receiver expr and method name
	syncCall := func(call *ast.CallExpr, typ string) (ast.Expr, string, bool) {
		sel, ok := call.Fun.(*ast.SelectorExpr)
		if !ok {
			return nil, "", false
		}
		s := info.Selections[sel]
		if s == nil || s.Kind() != types.MethodVal {
			return nil, "", false
		}
		fn, ok := s.Obj().(*types.Func)
		if !ok || fn.Pkg() == nil || fn.Pkg().Path() != "sync" {
			return nil, "", false
		}
		sig := fn.Type().(*types.Signature)
		if sig.Recv() == nil || !isSyncNamed(sig.Recv().Type(), typ) {
			return nil, "", false
		}
		return sel.X, fn.Name(), true
	}
	recvArg := func(x ast.Expr) (string, bool) {
		if !simpleAddressable(x) {
			return "", false
		}
		t := info.TypeOf(x)
		if t == nil {
			return "", false
		}
		if _, isPtr := t.Underlying().(*types.Pointer); isPtr {
			return text(x), true
		}
		if _, isIface := t.Underlying().(*types.Interface); isIface {
			return text(x), true // e.g. a sync.Locker value
		}
		return "&" + text(x), true
	}

	perFunc := map[string]int{}
	funcAt = func(pos token.Pos) string {
		name := "init"
		for _, d := range f.Decls {
			fd, ok := d.(*ast.FuncDecl)
			if !ok || pos < fd.Pos() || pos > fd.End() {
				continue
			}
			name = fd.Name.Name
			if fd.Recv != nil && len(fd.Recv.List) > 0 {
				name = "(" + string(src[off(fd.Recv.List[0].Type.Pos()):off(fd.Recv.List[0].Type.End())]) + ")." + name
			}
		}
		key := relp + "|" + name
		perFunc[key]++
		return fmt.Sprintf("%s#%d", name, perFunc[key])
	}
	handledLock := map[*ast.CallExpr]bool{}
	handledRange := map[*ast.RangeStmt]bool{}

	var instrList func(list []ast.Stmt)
	instrList = func(list []ast.Stmt) {
		for _, st := range list {
			pos := st.Pos()
			site := newSite(pos)
			ins := fmt.Sprintf("verifsim.Yield(%d); ", site)
			inner := st
			for {
				l, ok := inner.(*ast.LabeledStmt)
				if !ok {
					break
				}
				inner = l.Stmt
			}
			switch x := inner.(type) {
			case *ast.ExprStmt:
				if call, ok := x.X.(*ast.CallExpr); ok {
					for _, typ := range []string{"Mutex", "RWMutex", "Locker"} {
						if recv, name, ok := syncCall(call, typ); ok && (name == "Lock" || name == "RLock") {
							if arg, ok := recvArg(recv); ok {
								kind := 0
								if name == "RLock" {
									kind = 1
								}
								ins += fmt.Sprintf("verifsim.BeforeLock(%s, %d); ", arg, kind)
								rep.LockProbes++
								handledLock[call] = true
							}
						}
					}
				}
			case *ast.GoStmt:
				if fl, ok := x.Call.Fun.(*ast.FuncLit); ok && len(x.Call.Args) == 0 && fl.Type.Params.NumFields() == 0 {
					// go func(){…}()  →  verifsim.Go(func(){…})
					fe.add(off(x.Go), off(x.Call.Pos()), "verifsim.Go(")
					fe.add(off(x.Call.Lparen), off(x.Call.Rparen)+1, ")")
					rep.GoRewritten++
				} else if rewriteGoCall(fe, info, x, off) {
					rep.GoRewritten++
				} else {
					rep.GoUncontrolled = append(rep.GoUncontrolled, where(x.Pos()))
				}
			case *ast.RangeStmt:
				if pre, post, ok := rewriteMapRange(fe, info, x, off, text, tf, relp); ok {
					// block wrapper opens before any label, closes after the loop
					ins += pre
					fe.add(off(st.End()), off(st.End()), post)
					handledRange[x] = true
					rep.MapRangeRewritten++
				}
			}
			fe.add(off(pos), off(pos), ins)
		}
	}

	clauseBlocks := map[*ast.BlockStmt]bool{}
	ast.Inspect(f, func(n ast.Node) bool {
		switch x := n.(type) {
		case *ast.SwitchStmt:
			clauseBlocks[x.Body] = true
		case *ast.TypeSwitchStmt:
			clauseBlocks[x.Body] = true
		case *ast.BlockStmt:
			if !clauseBlocks[x] {
				instrList(x.List)
			}
		case *ast.CaseClause:
			instrList(x.Body)
		case *ast.CommClause:
			instrList(x.Body)
		case *ast.SelectStmt:
			clauseBlocks[x.Body] = true
			switch rewriteSelect(fe, x, off, text, &rep) {
			case selRewritten:
				rep.SelectRewritten++
			case selUncontrolled:
				rep.SelectSites = append(rep.SelectSites, where(x.Pos()))
			}
		}
		return true
	})
	// second pass: things that need every statement-level decision made
	randKeep := map[string]bool{}
	ast.Inspect(f, func(n ast.Node) bool {
		switch x := n.(type) {
		case *ast.RangeStmt:
			if !handledRange[x] {
				if t := info.TypeOf(x.X); t != nil {
					if _, ok := t.Underlying().(*types.Map); ok {
						rep.MapRangeUncontrol = append(rep.MapRangeUncontrol, where(x.Pos()))
					}
				}
			}
		case *ast.CallExpr:
			if recv, name, ok := syncCall(x, "Once"); ok && name == "Do" {
				if arg, ok := recvArg(recv); ok {
					fe.add(off(x.Fun.Pos()), off(x.Lparen)+1, "verifsim.OnceDo("+arg+", ")
					rep.OnceWrapped++
				}
			}
			if recv, name, ok := syncCall(x, "Map"); ok && name == "Range" && len(x.Args) == 1 {
				if arg, ok := recvArg(recv); ok {
					mapSites = append(mapSites, where(x.Pos())+"|"+funcAt(x.Pos())+" (sync.Map)")
					fe.add(off(x.Fun.Pos()), off(x.Lparen)+1, "verifsim.SyncMapRange("+arg+", ")
					fe.add(off(x.Rparen), off(x.Rparen), fmt.Sprintf(", %d", len(mapSites)-1))
					rep.SyncMapRange++
				}
			}
			for _, typ := range []string{"Mutex", "RWMutex", "Locker"} {
				if _, name, ok := syncCall(x, typ); ok && (name == "Lock" || name == "RLock") && !handledLock[x] {
					rep.LockUncontrolled = append(rep.LockUncontrolled, where(x.Pos()))
				}
			}
			if recv, name, ok := syncCall(x, "Cond"); ok && (name == "Wait" || name == "Signal" || name == "Broadcast") {
				if arg, ok := recvArg(recv); ok {
					fe.add(off(x.Fun.Pos()), off(x.Rparen)+1, "verifsim.Cond"+name+"("+arg+")")
					rep.CondRewritten++
				} else {
					rep.CondWaitSites = append(rep.CondWaitSites, where(x.Pos()))
				}
			}
			if recv, name, ok := syncCall(x, "Pool"); ok && (name == "Get" || name == "Put") {
				if arg, ok := recvArg(recv); ok {
					if name == "Get" {
						fe.add(off(x.Fun.Pos()), off(x.Rparen)+1, "verifsim.PoolGet("+arg+")")
					} else {
						fe.add(off(x.Fun.Pos()), off(x.Lparen)+1, "verifsim.PoolPut("+arg+", ")
					}
					rep.PoolRewritten++
				} else {
					rep.PoolUncontrolled = append(rep.PoolUncontrolled, where(x.Pos()))
				}
			}
			if _, name, ok := syncCall(x, "WaitGroup"); ok && name == "Wait" {
				rep.WaitGroupWaitSites = append(rep.WaitGroupWaitSites, where(x.Pos()))
			}
			if sel, ok := x.Fun.(*ast.SelectorExpr); ok {
				if id, ok := sel.X.(*ast.Ident); ok {
					if pn, ok := info.Uses[id].(*types.PkgName); ok {
						switch pn.Imported().Path() {
						case "time":
							if sel.Sel.Name == "Now" {
								rep.TimeNowSites = append(rep.TimeNowSites, where(x.Pos()))
							}
							if sel.Sel.Name == "AfterFunc" {
								rep.AfterFuncSites = append(rep.AfterFuncSites, where(x.Pos()))
							}
						case "math/rand", "math/rand/v2":
							// top-level generator functions → the seeded seam (verifsim/randseam.go)
							seam := map[string]string{"Int": "RandInt", "Intn": "RandIntn", "IntN": "RandIntn", "Int63": "RandInt63", "Int63n": "RandInt63n",
								"Int64": "RandInt63", "Int64N": "RandInt63n", "Int31": "RandInt31", "Int31n": "RandInt31n", "Int32": "RandInt31", "Int32N": "RandInt31n",
								"Uint32": "RandUint32", "Uint64": "RandUint64", "Float64": "RandFloat64", "Float32": "RandFloat32", "Perm": "RandPerm", "Shuffle": "RandShuffle"}
							if to, ok := seam[sel.Sel.Name]; ok {
								fe.add(off(x.Fun.Pos()), off(x.Fun.End()), "verifsim."+to)
								rep.RandRewritten++
								if !randKeep[id.Name] { // the import must stay used
									randKeep[id.Name] = true
									fe.add(len(src), len(src), "\nvar _ = "+id.Name+".Int\n")
								}
							} else {
								rep.RandSites = append(rep.RandSites, where(x.Pos()))
							}
						case "crypto/rand":
							rep.RandSites = append(rep.RandSites, where(x.Pos()))
						case "runtime":
							// the collector decides when a cleanup runs: under simulation the simulator does (verifsim/gcseam.go)
							if sel.Sel.Name == "AddCleanup" {
								fe.add(off(x.Fun.Pos()), off(x.Fun.End()), "verifsim.AddCleanup")
								rep.CleanupRewritten++
								if !randKeep["runtime:"+id.Name] {
									randKeep["runtime:"+id.Name] = true
									fe.add(len(src), len(src), "\nvar _ = "+id.Name+".GC\n")
								}
							}
							if sel.Sel.Name == "SetFinalizer" {
								rep.FinalizerSites = append(rep.FinalizerSites, where(x.Pos()))
							}
						}
					}
				}
			}
		}
		return true
	})

	if len(fe.edits) == 0 {
		return nil
	}
	// import on the package clause line, so that no line number changes
	nameEnd := off(f.Name.End())
	fe.add(nameEnd, nameEnd, fmt.Sprintf("; import verifsim %q", modPath+"/verifsim"))
	return fe
}

// rewriteGoCall turns `go F(A0, A1)` into
//
//	func() { __vf := F; __va0 := A0; __va1 := A1; verifsim.Go(func() { __vf(__va0, __va1) }) }()
//
// with insert-only edits (text inside F and the arguments keeps its own edits): the function value
// and the arguments are evaluated where the go statement stands, as Go does. Untyped constants and
// nil are repeated in the inner call instead of being bound to a variable (which would fix a type).
func rewriteGoCall(fe *fileEdits, info *types.Info, x *ast.GoStmt, off func(token.Pos) int) bool {
	call := x.Call
	if tv, ok := info.Types[call.Fun]; !ok || tv.IsType() || tv.IsBuiltin() {
		return false // conversion or builtin
	}
	if _, ok := info.TypeOf(call.Fun).Underlying().(*types.Signature); !ok {
		return false
	}
	var inner []string
	type bind struct {
		arg  ast.Expr
		name string
	}
	var binds []bind
	for i, a := range call.Args {
		tv, ok := info.Types[a]
		if !ok {
			return false
		}
		if _, isTuple := tv.Type.(*types.Tuple); isTuple {
			return false // f(g()) with a multi-value g
		}
		if tv.Value != nil || tv.IsNil() { // a constant (recorded with its converted type) or nil
			if containsFuncLit(a) {
				return false
			}
			inner = append(inner, string(fe.src[off(a.Pos()):off(a.End())]))
			binds = append(binds, bind{a, ""})
			continue
		}
		name := fmt.Sprintf("__va%d", i)
		binds = append(binds, bind{a, name})
		inner = append(inner, name)
	}
	if call.Ellipsis.IsValid() && len(inner) > 0 {
		if binds[len(binds)-1].name == "" {
			return false
		}
		inner[len(inner)-1] += "..."
	}
	fe.add(off(x.Go), off(call.Pos()), "func() { __vf := ")
	// from the end of F to the end of the call: "(" A0 "," A1 ")" becomes "; __va0 := " A0 "; __va1 := " A1 "; verifsim.Go(...) }()"
	prev := call.Fun.End()
	for _, b := range binds {
		if b.name == "" {
			// drop the constant's text here (it is repeated in the inner call)
			fe.add(off(prev), off(b.arg.End()), strings.Repeat("\n", strings.Count(string(fe.src[off(prev):off(b.arg.End())]), "\n")))
		} else {
			fe.add(off(prev), off(b.arg.Pos()), "; "+b.name+" := "+strings.Repeat("\n", strings.Count(string(fe.src[off(prev):off(b.arg.Pos())]), "\n")))
		}
		prev = b.arg.End()
	}
	tail := "; verifsim.Go(func() { __vf(" + strings.Join(inner, ", ") + ") }) }()"
	fe.add(off(prev), off(call.Rparen)+1, strings.Repeat("\n", strings.Count(string(fe.src[off(prev):off(call.Rparen)+1]), "\n"))+tail)
	return true
}

const (
	selNoChoice = iota // fewer than two communication cases: nothing for the runtime to choose
	selRewritten
	selUncontrolled
)

var selectSiteCounter int

// rewriteSelect turns a select statement with two or more communication cases into a switch over
// verifsim.Select (see verifsim/selectseam.go), keeping every line where it was.
func rewriteSelect(fe *fileEdits, x *ast.SelectStmt, off func(token.Pos) int, text func(ast.Node) string, rep *Report) int {
	type cs struct {
		cc       *ast.CommClause
		arg      string // verifsim.SelRecv(ch) / verifsim.SelSend(ch, v)
		prologue string // assignment of the received value
	}
	var cases []cs
	hasDefault := false
	for _, st := range x.Body.List {
		cc, ok := st.(*ast.CommClause)
		if !ok {
			return selUncontrolled
		}
		if cc.Comm == nil {
			hasDefault = true
			continue
		}
		c := cs{cc: cc}
		recvOf := func(e ast.Expr) (string, bool) {
			u, ok := e.(*ast.UnaryExpr)
			if !ok || u.Op != token.ARROW || containsFuncLit(u.X) {
				return "", false
			}
			return text(u.X), true
		}
		switch m := cc.Comm.(type) {
		case *ast.SendStmt:
			if containsFuncLit(m.Chan) || containsFuncLit(m.Value) {
				return selUncontrolled
			}
			c.arg = fmt.Sprintf("verifsim.SelSend(%s, %s)", text(m.Chan), text(m.Value))
		case *ast.ExprStmt:
			ch, ok := recvOf(m.X)
			if !ok {
				return selUncontrolled
			}
			c.arg = fmt.Sprintf("verifsim.SelRecv(%s)", ch)
		case *ast.AssignStmt:
			if len(m.Rhs) != 1 || len(m.Lhs) < 1 || len(m.Lhs) > 2 {
				return selUncontrolled
			}
			ch, ok := recvOf(m.Rhs[0])
			if !ok {
				return selUncontrolled
			}
			c.arg = fmt.Sprintf("verifsim.SelRecv(%s)", ch)
			lhs := text(m.Lhs[0])
			rhs := fmt.Sprintf("verifsim.SelVal(%s, __vs.V)", ch)
			if len(m.Lhs) == 2 {
				lhs += ", " + text(m.Lhs[1])
				rhs += ", __vs.Ok"
			}
			c.prologue = fmt.Sprintf(" %s %s %s;", lhs, m.Tok.String(), rhs)
			if m.Tok == token.DEFINE {
				// a received variable the body never uses is legal in a select, not in a plain assignment
				for _, l := range m.Lhs {
					if id, ok := l.(*ast.Ident); ok && id.Name != "_" {
						c.prologue += fmt.Sprintf(" _ = %s;", id.Name)
					}
				}
			}
		default:
			return selUncontrolled
		}
		cases = append(cases, c)
	}
	if len(cases) < 2 {
		return selNoChoice
	}
	selectSiteCounter++
	var args []string
	for _, c := range cases {
		args = append(args, c.arg)
	}
	head := fmt.Sprintf("switch __vs := verifsim.Select(%d, %v, %s); __vs.I {", selectSiteCounter, hasDefault, strings.Join(args, ", "))
	nl := strings.Count(string(fe.src[off(x.Select):off(x.Body.Lbrace)+1]), "\n")
	fe.add(off(x.Select), off(x.Body.Lbrace)+1, head+strings.Repeat("\n", nl))
	for i, c := range cases {
		nl := strings.Count(string(fe.src[off(c.cc.Case):off(c.cc.Colon)+1]), "\n")
		fe.add(off(c.cc.Case), off(c.cc.Colon)+1, fmt.Sprintf("case %d:%s", i, c.prologue)+strings.Repeat("\n", nl))
	}
	if !hasDefault {
		// keeps the statement terminating where the select was (a switch needs a default for that)
		fe.add(off(x.Body.Rbrace), off(x.Body.Rbrace), "default: panic(\"verifsim: select returned no case\"); ")
	}
	return selRewritten
}

// rewriteMapRange turns `for k, v := range m {` into a loop over
// verifsim.MapKeys. Returns the text to put before the (possibly labelled)
// statement and after it.
// funcAt names the function declaration enclosing pos ("(*T).Method" / "Func").
var funcAt func(pos token.Pos) string

func rewriteMapRange(fe *fileEdits, info *types.Info, x *ast.RangeStmt, off func(token.Pos) int,
	text func(ast.Node) string, tf *token.File, relp string) (string, string, bool) {
	t := info.TypeOf(x.X)
	if t == nil {
		return "", "", false
	}
	mt, ok := t.Underlying().(*types.Map)
	if !ok {
		return "", "", false
	}
	kb, ok := mt.Key().Underlying().(*types.Basic)
	if !ok || kb.Info()&types.IsOrdered == 0 {
		return "", "", false
	}
	if containsFuncLit(x.X) {
		return "", "", false
	}
	if x.Key != nil && containsFuncLit(x.Key) || x.Value != nil && containsFuncLit(x.Value) {
		return "", "", false
	}
	mapSites = append(mapSites, fmt.Sprintf("%s:%d|%s", relp, tf.Line(x.Pos()), funcAt(x.Pos())))
	site := len(mapSites) - 1
	id := fmt.Sprintf("%d", site)
	mv, kv, vv, okv := "__vm"+id, "__vk"+id, "__vv"+id, "__vo"+id
	isBlank := func(e ast.Expr) bool {
		if e == nil {
			return true
		}
		i, ok := e.(*ast.Ident)
		return ok && i.Name == "_"
	}
	pre := fmt.Sprintf("{ %s := %s; ", mv, text(x.X))
	var head, prologue string
	if x.Tok == token.DEFINE {
		k := kv
		if !isBlank(x.Key) {
			k = text(x.Key)
		}
		head = fmt.Sprintf("for _, %s := range verifsim.MapKeys(%s, %d) {", k, mv, site)
		if !isBlank(x.Value) {
			prologue = fmt.Sprintf(" %s, %s := %s[%s]; if !%s { continue }; _ = %s;", text(x.Value), okv, mv, k, okv, text(x.Value))
		} else {
			prologue = fmt.Sprintf(" if _, %s := %s[%s]; !%s { continue };", okv, mv, k, okv)
		}
		if isBlank(x.Key) {
			prologue += fmt.Sprintf(" _ = %s;", k)
		}
	} else {
		// assignment form (or no variables at all)
		head = fmt.Sprintf("for _, %s := range verifsim.MapKeys(%s, %d) {", kv, mv, site)
		prologue = fmt.Sprintf(" %s, %s := %s[%s]; if !%s { continue }; _ = %s;", vv, okv, mv, kv, okv, vv)
		if !isBlank(x.Key) {
			prologue += fmt.Sprintf(" %s = %s;", text(x.Key), kv)
		}
		if !isBlank(x.Value) {
			prologue += fmt.Sprintf(" %s = %s;", text(x.Value), vv)
		}
	}
	nl := strings.Count(string(fe.src[off(x.For):off(x.Body.Lbrace)+1]), "\n")
	fe.add(off(x.For), off(x.Body.Lbrace)+1, head+prologue+strings.Repeat("\n", nl))
	return pre, " }", true
}
