// verif is the driver of the deterministic-simulation checks:
//
//	verif check <ID> [--tier quick|thorough] [--keep]
//	verif replay <replay.json>
//	verif prepare <ID> <dir>        (development: leave an instrumented tree behind)
//
// Every invocation rebuilds from /repo's current working tree: copy →
// instrument → add harness → build worker → run workers → minimise/confirm →
// evidence → clean up. Exit 0: property held on everything explored (known
// findings are printed as KNOWN-FINDING lines); exit 1: a VIOLATION line was
// printed; exit 2: tooling trouble (build, watchdog, nondeterminism), never a
// verdict.
package main

import (
	"bufio"
	"bytes"
	"crypto/sha256"
	"encoding/json"
	"errors"
	"flag"
	"fmt"
	"os"
	"os/exec"
	"path/filepath"
	"regexp"
	"runtime"
	"sort"
	"strconv"
	"strings"
	"sync"
	"syscall"
	"time"
)

type propSpec struct {
	ID        string
	Level     string // evidence level
	Race      bool
	QuickRuns int64
	ThorRuns  int64
	QuickSecs int64
	ThorSecs  int64
	Rule      string
	Assume    []string
	Procs     []int // GOMAXPROCS values cycled over workers
}

var specs = map[string]*propSpec{}

func register(p *propSpec) { specs[p.ID] = p }

var (
	verifDir  = "/verif"
	repoDir   = "/repo"
	modPath   = "github.com/php-any/origami"
	goEnvOnce sync.Once
)

func env() []string {
	e := os.Environ()
	set := func(k, v string) {
		for i, kv := range e {
			if strings.HasPrefix(kv, k+"=") {
				e[i] = k + "=" + v
				return
			}
		}
		e = append(e, k+"="+v)
	}
	set("GOFLAGS", "-mod=mod")
	set("GOPROXY", "off")
	set("GOSUMDB", "off")
	set("GOTOOLCHAIN", "local")
	set("PATH", "/opt/veriftools/go1.26.8/bin:"+os.Getenv("PATH"))
	return e
}

func run(dir string, extraEnv []string, name string, args ...string) (string, error) {
	cmd := exec.Command(name, args...)
	cmd.Dir = dir
	cmd.Env = append(env(), extraEnv...)
	// children must not outlive a killed driver
	cmd.SysProcAttr = &syscall.SysProcAttr{Pdeathsig: syscall.SIGKILL}
	var buf bytes.Buffer
	cmd.Stdout = &buf
	cmd.Stderr = &buf
	err := cmd.Run()
	return buf.String(), err
}

func die(code int, f string, a ...any) {
	fmt.Fprintf(os.Stderr, "verif: "+f+"\n", a...)
	os.Exit(code)
}

func main() {
	if v := os.Getenv("VERIF_DIR"); v != "" {
		verifDir = v
	} else if exe, err := os.Executable(); err == nil {
		// <verif>/bin/verif: work from the tree this binary was built in (a
		// background run from a snapshot must not read or write /verif itself)
		if d := filepath.Dir(filepath.Dir(exe)); fileExists(filepath.Join(d, "MANIFEST.json")) {
			verifDir = d
		}
	}
	if v := os.Getenv("VERIF_REPO"); v != "" {
		repoDir = v
	}
	if len(os.Args) < 2 {
		die(2, "usage: verif check <ID> [--tier quick|thorough] | replay <file> | prepare <ID> <dir>")
	}
	switch os.Args[1] {
	case "check":
		fs := flag.NewFlagSet("check", flag.ExitOnError)
		tier := fs.String("tier", envOr("VERIF_TIER", "quick"), "quick|thorough")
		keep := fs.Bool("keep", false, "keep the scratch tree")
		runs := fs.Int64("runs", 0, "override number of runs")
		secs := fs.Int64("secs", 0, "override wall-clock budget for the search")
		if len(os.Args) < 3 {
			die(2, "check needs a property id")
		}
		fs.Parse(os.Args[3:])
		os.Exit(check(os.Args[2], *tier, *keep, *runs, *secs))
	case "replay":
		if len(os.Args) < 3 {
			die(2, "replay needs a file")
		}
		os.Exit(replayCmd(os.Args[2]))
	case "prepare":
		if len(os.Args) < 4 {
			die(2, "prepare <ID> <dir>")
		}
		sp := specs[os.Args[2]]
		if sp == nil {
			die(2, "unknown property %s", os.Args[2])
		}
		if _, err := prepare(sp, os.Args[3]); err != nil {
			die(2, "%v", err)
		}
	default:
		die(2, "unknown command %s", os.Args[1])
	}
}

func fileExists(p string) bool {
	_, err := os.Stat(p)
	return err == nil
}

func envOr(k, d string) string {
	if v := os.Getenv(k); v != "" {
		return v
	}
	return d
}

func seedFromEnv() uint64 {
	v := os.Getenv("VERIF_SEED")
	if v == "" {
		return 1
	}
	n, err := strconv.ParseUint(v, 10, 64)
	if err != nil {
		i, err2 := strconv.ParseInt(v, 10, 64)
		if err2 != nil {
			die(2, "VERIF_SEED=%q is not an integer", v)
		}
		n = uint64(i)
	}
	return n
}

// sweepScratch removes scratch trees left behind by drivers that were killed.
func sweepScratch() {
	base := envOr("VERIF_SCRATCH", "/var/tmp")
	ents, err := os.ReadDir(base)
	if err != nil {
		return
	}
	for _, e := range ents {
		n := e.Name()
		if !strings.HasPrefix(n, "verif-") || !e.IsDir() {
			continue
		}
		i := strings.LastIndexByte(n, '-')
		pid, err := strconv.Atoi(n[i+1:])
		if err != nil || pid <= 0 {
			continue
		}
		if _, err := os.Stat(fmt.Sprintf("/proc/%d", pid)); err == nil {
			continue // owner still alive
		}
		os.RemoveAll(filepath.Join(base, n))
	}
}

func scratchDir(id string) string {
	base := envOr("VERIF_SCRATCH", "/var/tmp")
	// fixed width: paths below this directory appear in scripts and error messages that instrumented code
	// walks character by character, so their LENGTH is an input of a run (one more character, one more
	// loop iteration, a preemption point somewhere else)
	return filepath.Join(base, fmt.Sprintf("verif-%s-%08d", id, os.Getpid()%100000000))
}

// prepare copies /repo's working tree, instruments it, adds the simulator and
// the harness and builds the worker binary. Returns the worker path.
func prepare(sp *propSpec, dir string) (string, error) {
	os.RemoveAll(dir)
	if err := os.MkdirAll(dir, 0o755); err != nil {
		return "", err
	}
	if out, err := run("/", nil, "rsync", "-a", "--exclude", ".git", "--exclude", "/bin", "--exclude", "/extensions",
		"--exclude", "/examples", "--exclude", "/tests", "--exclude", "/docs", "--exclude", "*_test.go",
		repoDir+"/", dir+"/"); err != nil {
		return "", fmt.Errorf("rsync: %v\n%s", err, out)
	}
	if out, err := run("/", nil, "rsync", "-a", "--exclude", "sites_gen.go", "--exclude", "report.json", verifDir+"/verifsim/", dir+"/verifsim/"); err != nil {
		return "", fmt.Errorf("copy verifsim: %v\n%s", err, out)
	}
	out, err := run(dir, nil, filepath.Join(verifDir, "bin", "verif-instrument"), "-dir", dir)
	if err != nil {
		return "", fmt.Errorf("instrument: %v\n%s", err, out)
	}
	fmt.Print("  " + out)
	lower := strings.ToLower(sp.ID)
	os.MkdirAll(filepath.Join(dir, "verifharness"), 0o755)
	for _, h := range []string{"hx", lower} {
		if out, err := run("/", nil, "rsync", "-a", verifDir+"/harness/"+h+"/", dir+"/verifharness/"+h+"/"); err != nil {
			return "", fmt.Errorf("copy harness: %v\n%s", err, out)
		}
	}
	if out, err := run(dir, nil, "go", "get", "github.com/anishathalye/porcupine@v1.3.0"); err != nil {
		return "", fmt.Errorf("go get porcupine: %v\n%s", err, out)
	}
	args := []string{"test", "-c", "-trimpath", "-vet=off", "-o", filepath.Join(dir, "worker.test")}
	if sp.Race {
		args = append(args, "-race")
	}
	args = append(args, "./verifharness/"+lower)
	t0 := time.Now()
	if out, err := run(dir, nil, "go", args...); err != nil {
		return "", fmt.Errorf("build worker: %v\n%s", err, out)
	}
	fmt.Printf("  built worker in %.1fs\n", time.Since(t0).Seconds())
	if sp.ID == "C20" {
		// corpus runs: the instrumented interpreter as a binary + the script corpus (not instrumented, not compiled)
		if out, err := run("/", nil, "rsync", "-a", "--exclude", "*.go", repoDir+"/tests/", dir+"/tests/"); err != nil {
			return "", fmt.Errorf("copy tests: %v\n%s", err, out)
		}
		if out, err := run(dir, nil, "go", "build", "-trimpath", "-o", filepath.Join(dir, "origami-bin"), "."); err != nil {
			return "", fmt.Errorf("build origami binary: %v\n%s", err, out)
		}
	}
	return filepath.Join(dir, "worker.test"), nil
}

type job struct {
	Mode      string   `json:"mode"`
	Tier      string   `json:"tier"`
	Seed      uint64   `json:"seed"`
	From      int64    `json:"from"`
	To        int64    `json:"to"`
	Out       string   `json:"out"`
	File      string   `json:"file,omitempty"`
	DetFrom   int64    `json:"det_from"`
	DetTo     int64    `json:"det_to"`
	Deadline  int64    `json:"deadline_s"`
	RecordAll bool     `json:"record_all,omitempty"`
	Repeat    int      `json:"repeat,omitempty"`
	NoRecords bool     `json:"no_records,omitempty"`
	Reverse   bool     `json:"reverse,omitempty"`
	Known     []string `json:"known,omitempty"`
	MaxViol   int      `json:"max_violation_records"`
}

type workerResult struct {
	job      job
	procs    int
	exitErr  error
	stderr   string
	summary  map[string]any
	records  []map[string]any
	replay   map[string]any
	dumps    []map[string]any
	finished bool
	probe    bool // determinism probe: contributes hashes only
}

func runWorker(worker, dir string, idx int, j job, procs int, race bool) *workerResult {
	jobFile := filepath.Join(dir, fmt.Sprintf("job-%d.json", idx))
	j.Out = filepath.Join(dir, fmt.Sprintf("out-%d.jsonl", idx))
	b, _ := json.Marshal(j)
	os.WriteFile(jobFile, b, 0o644)
	extra := []string{"VERIF_JOB=" + jobFile, "GOMAXPROCS=" + strconv.Itoa(procs)}
	if race {
		extra = append(extra, "GORACE=halt_on_error=0 history_size=5")
	}
	stderr, err := run(dir, extra, worker, "-test.run", "^TestWorker$", "-test.timeout", "0", "-test.count", "1")
	r := &workerResult{job: j, procs: procs, exitErr: err, stderr: stderr}
	f, ferr := os.Open(j.Out)
	if ferr != nil {
		return r
	}
	defer f.Close()
	sc := bufio.NewScanner(f)
	sc.Buffer(make([]byte, 1<<20), 256<<20)
	for sc.Scan() {
		var m map[string]any
		if unmarshal(sc.Bytes(), &m) != nil {
			continue
		}
		switch m["type"] {
		case "summary":
			r.summary = m
			r.finished = true
		case "violation":
			r.records = append(r.records, m["record"].(map[string]any))
		case "rundump":
			r.dumps = append(r.dumps, m["record"].(map[string]any))
		case "replay":
			r.replay = m
			r.finished = true
		}
	}
	return r
}

type finding struct {
	Property  string `json:"property"`
	Signature string `json:"signature"`
	Status    string `json:"status"` // known | fixed
	What      string `json:"what"`
	Commit    string `json:"commit,omitempty"`
	Line      string `json:"line,omitempty"`
}

func loadFindings() []finding {
	var f struct {
		Findings []finding `json:"findings"`
	}
	b, err := os.ReadFile(filepath.Join(verifDir, "known_findings.json"))
	if err != nil {
		return nil
	}
	if err := json.Unmarshal(b, &f); err != nil {
		die(2, "known_findings.json: %v", err)
	}
	return f.Findings
}

func num(m map[string]any, k string) int64 {
	if m == nil {
		return 0
	}
	switch v := m[k].(type) {
	case float64:
		return int64(v)
	case int64:
		return v
	case int:
		return int64(v)
	case json.Number:
		n, err := v.Int64()
		if err != nil {
			f, _ := v.Float64()
			return int64(f)
		}
		return n
	}
	return 0
}

// unmarshal decodes JSON keeping numbers exact (seeds are 64-bit).
func unmarshal(b []byte, v any) error {
	d := json.NewDecoder(bytes.NewReader(b))
	d.UseNumber()
	return d.Decode(v)
}

func check(id, tier string, keep bool, runsOverride, secsOverride int64) int {
	sp := specs[id]
	if sp == nil {
		die(2, "unknown property %s", id)
	}
	if tier != "quick" && tier != "thorough" {
		die(2, "tier must be quick or thorough")
	}
	t0 := time.Now()
	sweepScratch()
	seed := seedFromEnv()
	fmt.Printf("verif check %s tier=%s VERIF_SEED=%d\n", id, tier, seed)
	dir := scratchDir(id)
	if !keep {
		defer os.RemoveAll(dir)
	}
	worker, err := prepare(sp, dir)
	if err != nil {
		fmt.Fprintln(os.Stderr, "verif: BUILD-TROUBLE:", err)
		return 2
	}
	runs, secs := sp.QuickRuns, sp.QuickSecs
	if tier == "thorough" {
		runs, secs = sp.ThorRuns, sp.ThorSecs
	}
	if runsOverride > 0 {
		runs = runsOverride
	}
	if secsOverride > 0 {
		secs = secsOverride
	}
	findings := loadFindings()
	var knownSigs []string
	status := map[string]finding{}
	for _, f := range findings {
		if f.Property == id {
			status[f.Signature] = f
			if f.Status == "known" {
				knownSigs = append(knownSigs, f.Signature)
			}
		}
	}

	ncpu := runtime.NumCPU()
	nworkers := ncpu
	if v := os.Getenv("VERIF_WORKERS"); v != "" {
		nworkers, _ = strconv.Atoi(v)
	}
	if int64(nworkers) > runs {
		nworkers = int(runs)
	}
	detN := int64(30)
	if tier == "thorough" {
		detN = 100
	}
	if v, err := strconv.ParseInt(os.Getenv("VERIF_DET_RUNS"), 10, 64); err == nil && v > 0 {
		detN = v
	}
	if detN > runs {
		detN = runs
	}
	procsCycle := sp.Procs
	if len(procsCycle) == 0 {
		procsCycle = []int{1, 2, 4}
	}
	var jobs []job
	var jprocs []int
	per := (runs + int64(nworkers) - 1) / int64(nworkers)
	for w := 0; w < nworkers; w++ {
		from, to := int64(w)*per, int64(w+1)*per
		if to > runs {
			to = runs
		}
		if from >= to {
			break
		}
		jobs = append(jobs, job{Mode: "search", Tier: tier, Seed: seed, From: from, To: to, Deadline: secs, Known: knownSigs, MaxViol: 1,
			DetFrom: 0, DetTo: detN})
		jprocs = append(jprocs, procsCycle[w%len(procsCycle)])
	}
	nsearch := len(jobs)
	// determinism probes: the first detN runs again, in separate processes, at other GOMAXPROCS
	cycle := []int{1, 4, 16}
	if sp.Race {
		cycle = []int{1, 1, 2} // spin hand-off: more Ps only burn CPU
	}
	nDet := 3
	if tier == "thorough" {
		nDet = 9
	}
	if v, err := strconv.Atoi(os.Getenv("VERIF_DET_PROCS")); err == nil && v > 0 {
		nDet = v // the large-sample determinism proof (tools/determinism.sh) asks for tens of processes
	}
	var detProcs []int
	for pi := 0; pi < nDet; pi++ {
		p := cycle[pi%len(cycle)]
		detProcs = append(detProcs, p)
		jobs = append(jobs, job{Mode: "search", Tier: tier, Seed: seed, From: 0, To: detN, Deadline: secs, NoRecords: true,
			DetFrom: 0, DetTo: detN, Reverse: pi%3 == 1})
		jprocs = append(jprocs, p)
	}
	var results []*workerResult
	var resMu sync.Mutex
	var wg sync.WaitGroup
	sem := make(chan struct{}, ncpu)
	var seq int64
	for i := range jobs {
		wg.Add(1)
		go func(i int) {
			defer wg.Done()
			sem <- struct{}{}
			defer func() { <-sem }()
			j := jobs[i]
			for {
				resMu.Lock()
				seq++
				idx := int(seq)
				resMu.Unlock()
				r := runWorker(worker, dir, idx, j, jprocs[i], sp.Race)
				r.probe = i >= nsearch
				resMu.Lock()
				results = append(results, r)
				resMu.Unlock()
				// a worker that stopped early to shed leaked goroutines/memory is continued in a fresh process
				next := num(r.summary, "next_run")
				if !r.finished || r.summary == nil || next <= j.From || next >= j.To || j.Mode != "search" {
					break
				}
				j.From = next
				if j.Deadline > 0 {
					left := secs - int64(time.Since(t0).Seconds())
					if left <= 0 {
						break
					}
					j.Deadline = left
				}
			}
		}(i)
	}
	wg.Wait()
	searchWall := time.Since(t0).Seconds()

	// ---- aggregate
	agg := map[string]int64{}
	probes := map[string]int64{}
	faults := map[string]int64{}
	outcomes := map[string]int64{}
	sigCounts := map[string]int64{}
	inter := map[string]struct{}{}
	preemptSites := map[int64]struct{}{}
	var focusSites, yieldSites int64
	var samples []any
	var components any
	detHashes := map[string]map[string]bool{}
	var records []map[string]any
	trouble := false
	for i, r := range results {
		extra := postProcess(sp, r)
		records = append(records, extra...)
		if !r.finished {
			fmt.Fprintf(os.Stderr, "verif: worker %d (runs %d..%d) did not finish: %v\n%s\n", i, r.job.From, r.job.To, r.exitErr, tail(r.stderr, 60))
			if len(extra) == 0 {
				trouble = true
			}
			continue
		}
		if strings.Contains(r.stderr, "NONDETERMINISM") {
			fmt.Fprintf(os.Stderr, "verif: NONDETERMINISM reported by worker %d:\n%s\n", i, grepLines(r.stderr, "NONDETERMINISM", 5))
			trouble = true
		}
		s := r.summary
		if dh, ok := s["det_hashes"].(map[string]any); ok {
			for k, v := range dh {
				if detHashes[k] == nil {
					detHashes[k] = map[string]bool{}
				}
				detHashes[k][fmt.Sprint(v)] = true
			}
		}
		if r.probe {
			continue // determinism probe: hashes only
		}
		for _, k := range []string{"runs", "nontrivial", "discarded", "inconclusive", "steps", "yields", "switches", "focus_preemptions", "sim_time_ns", "map_calls", "map_permuted", "self_check_mismatch"} {
			agg[k] += num(s, k)
		}
		addMap(probes, s["probes"])
		addMap(faults, s["faults"])
		addMap(outcomes, s["outcomes"])
		addMap(sigCounts, s["signature_counts"])
		if il, ok := s["interleavings"].([]any); ok {
			for _, v := range il {
				inter[fmt.Sprint(v)] = struct{}{}
			}
		}
		if ps, ok := s["preempt_sites"].([]any); ok {
			for _, v := range ps {
				if n, ok := v.(json.Number); ok {
					x, _ := n.Int64()
					preemptSites[x] = struct{}{}
				}
			}
		}
		focusSites, yieldSites = num(s, "focus_sites_total"), num(s, "yield_sites_total")
		if ss, ok := s["samples"].([]any); ok && len(samples) < 3 {
			for _, x := range ss {
				if len(samples) < 3 {
					samples = append(samples, x)
				}
			}
		}
		components = s["components"]
		records = append(records, r.records...)
	}
	detChecked, detBad := 0, 0
	for k, hs := range detHashes {
		detChecked++
		if len(hs) > 1 {
			detBad++
			fmt.Fprintf(os.Stderr, "verif: NONDETERMINISM: run %s produced %d different hashes across processes/GOMAXPROCS\n", k, len(hs))
		}
	}
	if detBad > 0 || agg["self_check_mismatch"] > 0 {
		trouble = true
	}

	// ---- violations: group by signature
	bySig := map[string][]map[string]any{}
	for _, rec := range records {
		sig, _ := rec["expected_signature"].(string)
		bySig[sig] = append(bySig[sig], rec)
	}
	var sigs []string
	for s := range bySig {
		sigs = append(sigs, s)
	}
	sort.Strings(sigs)
	exit := 0
	violations := 0
	var knownSeen []string
	os.MkdirAll(filepath.Join(verifDir, "replays"), 0o755)
	for _, sig := range sigs {
		if f, ok := status[sig]; ok && f.Status == "known" {
			knownSeen = append(knownSeen, sig)
			continue
		}
		recs := bySig[sig]
		sort.SliceStable(recs, func(i, j int) bool { return recSize(recs[i]) < recSize(recs[j]) })
		best := recs[0]
		if need, _ := best["_needs_record"].(bool); need {
			// a race/crash seen in a worker's stderr: re-run that one run in a
			// fresh process to obtain its full record (and the report again)
			run := num(best, "run")
			rr := runWorker(worker, dir, 2000+violations, job{Mode: "search", Tier: tier, Seed: seed, From: run, To: run + 1, RecordAll: true, NoRecords: true, Repeat: 6}, 2, sp.Race)
			ok := false
			for _, e := range postProcess(sp, rr) {
				if e["expected_signature"] == sig {
					ok = true
				}
			}
			if !ok || len(rr.dumps) == 0 {
				fmt.Fprintf(os.Stderr, "verif: UNCONFIRMED: %q seen during run %d did not show again when that run was repeated alone in a fresh process\n%s\n", sig, run, tail(rr.stderr, 30))
				trouble = true
				continue
			}
			rec := rr.dumps[0]
			rec["expected_signature"] = sig
			rec["detail"] = best["detail"]
			best = rec
		}
		h := sha256.Sum256([]byte(sig))
		path := filepath.Join(verifDir, "replays", fmt.Sprintf("%s-%x-%d.json", id, h[:4], seed))
		// confirm in a fresh process: the smallest record first; when a minimised form does not reproduce there
		// (it was minimised inside the worker that found it, with that process's history), the case as found
		confirm := func(rec map[string]any) (bool, string) {
			b, _ := json.MarshalIndent(rec, "", " ")
			os.WriteFile(path, b, 0o644)
			rj := job{Mode: "replay", File: path}
			if sp.Race {
				rj.Repeat = 6
			}
			rr := runWorker(worker, dir, 1000+violations, rj, 2, sp.Race)
			extra := postProcess(sp, rr)
			ok := false
			if rr.replay != nil {
				ok, _ = rr.replay["reproduced"].(bool)
			}
			for _, e := range extra {
				if e["expected_signature"] == sig {
					ok = true
				}
			}
			return ok, tail(rr.stderr, 30)
		}
		ok, errTail := confirm(best)
		if !ok {
			for k, rec := range recs {
				if k >= 3 || ok {
					break
				}
				ow, has := rec["original_workload"]
				if need, _ := rec["_needs_record"].(bool); need || !has {
					continue
				}
				orig := map[string]any{}
				for key, v := range rec {
					orig[key] = v
				}
				orig["workload"], orig["sched"], orig["minimised"] = ow, rec["original_sched"], false
				if d, _ := rec["original_detail"].(string); d != "" {
					orig["detail"] = d
				}
				orig["minimisation_note"] = "the minimised form reproduced only inside the worker process that found it; this is the case as the search found it"
				delete(orig, "original_workload")
				delete(orig, "original_sched")
				delete(orig, "original_detail")
				delete(orig, "trace")
				if ok, _ = confirm(orig); ok {
					best = orig
				}
			}
		}
		if !ok {
			fmt.Fprintf(os.Stderr, "verif: UNCONFIRMED: signature %q did not reproduce from %s in a fresh process (tooling trouble, not a verdict)\n%s\n", sig, path, errTail)
			trouble = true
			continue
		}
		violations++
		fmt.Printf("VIOLATION property=%s replay=%s\n", id, path)
		fmt.Printf("  signature: %s\n  detail: %v\n  seen in %d run(s) of this batch\n", sig, best["detail"], sigCounts[sig])
		exit = 1
	}
	for _, f := range findings {
		if f.Property == id && f.Status == "known" {
			fmt.Printf("KNOWN-FINDING: property=%s %s [signature %s; observed in %d runs of this batch]\n", id, f.What, f.Signature, sigCounts[f.Signature])
		}
	}

	// ---- evidence
	wall := time.Since(t0).Seconds()
	cov := map[string]any{
		"evaluations":                agg["runs"],
		"distinct_nontrivial":        int64(len(inter)),
		"rule":                       sp.Rule,
		"samples":                    samples,
		"simulated_runs":             agg["runs"],
		"runs_per_hour":              int64(float64(agg["runs"]) / searchWall * 3600),
		"seeds_per_hour":             int64(float64(agg["runs"]) / searchWall * 3600),
		"verif_seed":                 seed,
		"scheduler_steps":            agg["steps"],
		"yield_points_passed":        agg["yields"],
		"context_switches":           agg["switches"],
		"preemptions_in_focus_files": agg["focus_preemptions"],
		"simulated_time_s":           float64(agg["sim_time_ns"]) / 1e9,
		"yield_sites_total":          yieldSites,
		"yield_sites_in_focus_files": focusSites,
		"distinct_yield_sites_where_a_task_was_preempted": len(preemptSites),
		"run_outcomes":        outcomes,
		"fault_kinds_fired":   faults,
		"probes":              probes,
		"map_order_calls":     agg["map_calls"],
		"map_order_permuted":  agg["map_permuted"],
		"inconclusive":        agg["inconclusive"],
		"discarded_cases":     agg["discarded"],
		"signature_counts":    sigCounts,
		"known_findings_seen": knownSeen,
		"determinism_selftest": map[string]any{"runs_compared": detChecked, "processes": len(detProcs), "gomaxprocs": detProcs, "mismatches": detBad,
			"in_process_repeats_mismatch": agg["self_check_mismatch"]},
		"components":      components,
		"workers":         nsearch,
		"instrumentation": readReport(dir),
	}
	ev := map[string]any{
		"property_id": id, "tier": tier, "seed": int64(seed), "level": sp.Level, "coverage": cov,
		"assumptions": sp.Assume, "wall_s": wall, "violations": violations,
	}
	if trouble {
		cov["tooling_trouble"] = true
	}
	os.MkdirAll(filepath.Join(verifDir, "evidence"), 0o755)
	b, _ := json.MarshalIndent(ev, "", " ")
	os.WriteFile(filepath.Join(verifDir, "evidence", id+".json"), b, 0o644)
	fmt.Printf("%s %s: %d runs (%d distinct non-trivial interleavings), %d violation signature(s), %d known finding(s) seen, %.0fs\n",
		id, tier, agg["runs"], len(inter), violations, len(knownSeen), wall)
	if exit == 1 {
		return 1
	}
	if trouble {
		return 2
	}
	return 0
}

func readReport(dir string) any {
	b, err := os.ReadFile(filepath.Join(dir, "verifsim", "report.json"))
	if err != nil {
		return nil
	}
	var m map[string]any
	json.Unmarshal(b, &m)
	out := map[string]any{}
	for k, v := range m {
		switch x := v.(type) {
		case []any:
			if k == "instrumented_packages" || k == "map_sites" {
				out[k+"_count"] = len(x)
			} else if len(x) > 12 {
				out[k+"_count"] = len(x)
			} else {
				out[k] = x
			}
		default:
			out[k] = v
		}
	}
	return out
}

func recSize(r map[string]any) int {
	n := 0
	if s, ok := r["sched"].(map[string]any); ok {
		if t, ok := s["tape"].([]any); ok {
			n += len(t)
		}
	}
	if w, ok := r["workload"]; ok {
		b, _ := json.Marshal(w)
		n += len(b) / 8
	}
	if m, _ := r["minimised"].(bool); !m {
		n += 1 << 20
	}
	return n
}

func addMap(dst map[string]int64, src any) {
	m, ok := src.(map[string]any)
	if !ok {
		return
	}
	for k, v := range m {
		switch f := v.(type) {
		case float64:
			dst[k] += int64(f)
		case json.Number:
			n, _ := f.Int64()
			dst[k] += n
		}
	}
}

func tail(s string, n int) string {
	lines := strings.Split(strings.TrimRight(s, "\n"), "\n")
	if len(lines) > n {
		lines = lines[len(lines)-n:]
	}
	return strings.Join(lines, "\n")
}

func grepLines(s, pat string, n int) string {
	var out []string
	for _, l := range strings.Split(s, "\n") {
		if strings.Contains(l, pat) {
			out = append(out, l)
			if len(out) >= n {
				break
			}
		}
	}
	return strings.Join(out, "\n")
}

func replayCmd(path string) int {
	b, err := os.ReadFile(path)
	if err != nil {
		die(2, "%v", err)
	}
	var rec map[string]any
	if err := unmarshal(b, &rec); err != nil {
		die(2, "%v", err)
	}
	id, _ := rec["property"].(string)
	sp := specs[id]
	if sp == nil {
		die(2, "replay file names unknown property %q", id)
	}
	abs, _ := filepath.Abs(path)
	dir := scratchDir(id + "-replay")
	defer os.RemoveAll(dir)
	worker, err := prepare(sp, dir)
	if err != nil {
		fmt.Fprintln(os.Stderr, "verif: BUILD-TROUBLE:", err)
		return 2
	}
	rj := job{Mode: "replay", File: abs}
	if sp.Race {
		rj.Repeat = 6
	}
	rr := runWorker(worker, dir, 0, rj, 2, sp.Race)
	extra := postProcess(sp, rr)
	sig, _ := rec["expected_signature"].(string)
	ok := false
	if rr.replay != nil {
		ok, _ = rr.replay["reproduced"].(bool)
		if tr, ok := rr.replay["trace"].([]any); ok {
			for _, l := range tr {
				fmt.Println("  ", l)
			}
		}
		fmt.Printf("violations in replay: %v\n", rr.replay["violations"])
	}
	for _, e := range extra {
		if e["expected_signature"] == sig {
			ok = true
		}
	}
	if ok {
		fmt.Printf("VIOLATION property=%s replay=%s\n  signature: %s (reproduced)\n", id, abs, sig)
		return 1
	}
	if rr.replay == nil && len(extra) == 0 {
		fmt.Fprintf(os.Stderr, "verif: replay worker failed:\n%s\n", tail(rr.stderr, 40))
		return 2
	}
	fmt.Printf("replay of %s did NOT reproduce %s on the current tree\n", abs, sig)
	return 0
}

// ---- race-detector / crash post-processing (C10) ---------------------------

var beginRe = regexp.MustCompile(`VERIF-BEGIN run=(-?\d+)`)

// postProcess turns race-detector reports and process crashes found in a
// worker's stderr into violation records attributed to the run during which
// they were printed.
func postProcess(sp *propSpec, r *workerResult) []map[string]any {
	if r == nil || !sp.Race {
		return nil
	}
	return raceRecords(sp, r)
}

var errNotImplemented = errors.New("not implemented")
