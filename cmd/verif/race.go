package main

import (
	"fmt"
	"regexp"
	"sort"
	"strconv"
	"strings"
)

// Race-detector and crash post-processing. Workers print VERIF-BEGIN/VERIF-END
// markers to the same stream the Go race runtime reports to, and tasks run
// strictly one at a time, so a report is attributed to the run during which it
// was printed. ThreadSanitizer de-duplicates reports per process, hence every
// signature is confirmed by re-running that one run in a fresh process.

var (
	frameFn  = regexp.MustCompile(`^  (\S+)\(\)$`)
	accessRe = regexp.MustCompile(`^(previous )?(write|read|atomic write|atomic read) at 0x[0-9a-f]+ by (goroutine \d+|main goroutine)`)
)

type raceHit struct {
	sig    string
	run    int64
	detail string
}

func isOrigamiFrame(fn string) bool {
	if !strings.HasPrefix(fn, modPath+"/") && !strings.HasPrefix(fn, modPath+".") {
		return false
	}
	if strings.Contains(fn, "/verifsim.") || strings.Contains(fn, "/verifharness/") {
		return false
	}
	return true
}

func parseRaces(id, stderr string) (hits []raceHit, harnessOnly int) {
	lines := strings.Split(stderr, "\n")
	run := int64(-1)
	for i := 0; i < len(lines); i++ {
		l := lines[i]
		if m := beginRe.FindStringSubmatch(l); m != nil {
			run, _ = strconv.ParseInt(m[1], 10, 64)
			continue
		}
		if !strings.HasPrefix(l, "WARNING: DATA RACE") {
			continue
		}
		// one report: sections until the closing ==================
		var sides []string
		var detail []string
		var cur string // access kind of the current section
		got := false
		j := i + 1
		for ; j < len(lines) && !strings.HasPrefix(lines[j], "=================="); j++ {
			x := lines[j]
			lx := strings.ToLower(x)
			if m := accessRe.FindStringSubmatch(lx); m != nil {
				cur = "r"
				if strings.Contains(m[2], "write") {
					cur = "w"
				}
				got = false
				detail = append(detail, strings.TrimSpace(x))
				continue
			}
			if strings.HasPrefix(x, "Goroutine ") || strings.HasPrefix(x, "Mutex ") {
				cur = ""
				continue
			}
			if cur == "" || got {
				continue
			}
			if m := frameFn.FindStringSubmatch(x); m != nil && isOrigamiFrame(m[1]) {
				fn := strings.TrimPrefix(m[1], modPath+"/")
				sides = append(sides, fn+":"+cur)
				detail = append(detail, "    "+fn)
				got = true
			}
		}
		i = j
		if len(sides) < 2 {
			harnessOnly++
			continue
		}
		if run < 0 {
			continue // printed while minimising another finding: belongs to no run
		}
		sort.Strings(sides)
		hits = append(hits, raceHit{sig: fmt.Sprintf("%s/race/%s|%s", id, sides[0], sides[1]), run: run,
			detail: "race detector report: " + strings.Join(detail, " ")})
	}
	return hits, harnessOnly
}

var fatalRe = regexp.MustCompile(`(?m)^fatal error: (.*)$`)

func raceRecords(sp *propSpec, r *workerResult) []map[string]any {
	var out []map[string]any
	seen := map[string]bool{}
	hits, _ := parseRaces(sp.ID, r.stderr)
	for _, h := range hits {
		if seen[h.sig] {
			continue
		}
		seen[h.sig] = true
		out = append(out, map[string]any{"expected_signature": h.sig, "run": h.run, "detail": h.detail, "_needs_record": true})
	}
	if !r.finished {
		if m := fatalRe.FindStringSubmatch(r.stderr); m != nil {
			run := int64(-1)
			for _, b := range beginRe.FindAllStringSubmatch(r.stderr, -1) {
				run, _ = strconv.ParseInt(b[1], 10, 64)
			}
			out = append(out, map[string]any{"expected_signature": fmt.Sprintf("%s/fatal/%s", sp.ID, m[1]), "run": run,
				"detail": "the Go runtime aborted the process: fatal error: " + m[1], "_needs_record": true})
		}
	}
	return out
}
