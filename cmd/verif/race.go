package main

func raceRecords(sp *propSpec, r *workerResult) []map[string]any { return nil }
