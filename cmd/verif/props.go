package main

func init() {
	register(&propSpec{
		ID: "C09", Level: "exploration",
		QuickRuns: 40000, QuickSecs: 60, ThorRuns: 3000000, ThorSecs: 1200,
		Rule: "one evaluation = one seeded simulated run: a generated workload (capacity 0-4, 1-3 producers x 1-3 sends, 0-3 consumers, 0-2 closers, observers, sleep jitter; Go-level Channel or script-level spawn+Channel) executed on the instrumented copy of /repo under a seeded schedule. A run is non-trivial if the scheduler preempted a task inside a focus file (std/channel, std/spawn.go, node/lambda.go) or switched tasks more than twice; distinct = distinct hash of (sequence of context switches with their yield sites, recorded history).",
		Assume: []string{
			"preemption is statement-granular: interleavings inside one Go statement are not explored",
			"Go channel operations and the Go runtime are trusted",
			"capacity/blocking behaviour, fairness and len() under concurrency are not demanded by the oracle",
		},
	})
}

func init() {
	register(&propSpec{
		ID: "C10", Level: "exploration", Race: true, Procs: []int{1},
		QuickRuns: 5000, QuickSecs: 90, ThorRuns: 300000, ThorSecs: 1500,
		Rule: "one evaluation = one seeded simulated run on a -race build of the instrumented copy: 2-16 tasks issue 2-60 registry calls each (AddClass/AddInterface/AddFunc/GetClass/GetInterface/GetFunc/LoadPkg/SetConstant/GetConstant/EnsureGlobalZVal/php file cache/AllClasses/AllFuncs/GetOrLoadClass with autoload from fixture files) over a pool of 1-6 overlapping names, preempted at statement granularity inside the VM methods (lock-aware). Non-trivial = at least one preemption inside runtime/vm*.go, parser/class_path_manager.go or runtime/autoload.go; distinct = distinct hash of (context-switch sequence with yield sites, recorded call history).",
		Assume: []string{
			"the Go race detector reports every unsynchronised conflicting access pair it observes in the serialised execution (its shadow memory keeps a bounded history)",
			"preemption is statement-granular; torn read-modify-write inside one statement is visible only to the race detector",
			"names differing only by case are not generated (that ambiguity belongs to C20)",
		},
	})
}

func init() {
	register(&propSpec{
		ID: "C13", Level: "fault_enumeration",
		QuickRuns: 20000, QuickSecs: 90, ThorRuns: 1500000, ThorSecs: 1500,
		Rule: "one evaluation = one seeded case: a generated handler sequence of 0-8 response operations over the 11-operation alphabet, 0-5 middlewares with priorities from {-1,0,0,1,5} (optional pre/post operations, short-circuit), optional onError handler, connection mode (strict body rules, write error at the j-th write); for that case the request is served once without abort and once for EVERY abort point (handler throws before operation k, k=0..len), each through the real ServeMux into the simulated connection and compared with the commit-once reference model. Non-trivial = the handler sequence is non-empty; distinct = distinct hash of all observations of the case.",
		Assume: []string{
			"body bytes of json/html/success/error are taken from serving that single operation alone at the same fake time (the serializer is not re-implemented)",
			"after a handler abort with an error handler registered, both 'pending status is committed at the abort' and 'the error handler's status wins' are accepted; what is demanded is a single commit and model-consistent status/headers/body",
			"real sockets, http.Server, keep-alive and HTTP/2 framing are not simulated",
		},
	})
}

func init() {
	register(&propSpec{
		ID: "C11", Level: "exploration",
		QuickRuns: 8000, QuickSecs: 120, ThorRuns: 400000, ThorSecs: 1500,
		Rule: "one evaluation = one seeded simulated run: a generated server script (1-3 routes whose handlers are compositions of labelled feature blocks: double reads of $_GET/$_POST/$_COOKIE/$_SERVER/$_REQUEST and of the same data through the request object with a gate in between, loops, arrays, objects, method recursion to depth 1-150, closures, helper functions, request attributes; 0-2 middlewares; optional onError) serves 2-8 (thorough: up to 64) in-flight requests with distinct parameters, each client a task on the real ServeMux, interleaved by the seeded scheduler; every response is compared with the response of the same request served alone on a second fresh VM. Non-trivial = more context switches than requests; distinct = distinct hash of (context-switch sequence, all responses).",
		Assume: []string{
			"handlers are pure functions of the request by construction; the generator self-check serves every request alone twice and discards the case if the two differ",
			"preemption is statement-granular",
			"route_dispatch.go (annotation-registered controllers) is not exercised: it needs the container/annotation boot path",
		},
	})
}

func init() {
	register(&propSpec{
		ID: "C12", Level: "exploration",
		QuickRuns: 10000, QuickSecs: 120, ThorRuns: 800000, ThorSecs: 1500,
		Rule: "one evaluation = one seeded history of 3-14 (thorough: up to 40) operations {define classes/interfaces/functions by parsing and running a snippet, observe through a freshly parsed snippet, observe through a snippet parsed once and shared by all VMs, discard VM} over 1 base VM + 1-4 temporary VMs and a pool of 8 names with collisions, with faulted snippets (throw after definitions, syntax error after k definitions); sequential histories by one driver task or, in a quarter of the runs, one concurrent task per temporary VM interleaved by the seeded scheduler. After every step every (VM, kind, name) triple is observed through the Go lookup API and compared with the set-based model. Non-trivial = at least 3 operations; distinct = distinct hash of (schedule, step log).",
		Assume: []string{
			"a duplicate definition on a temporary VM may be accepted (last wins) or rejected: both are legal; where the base VM and a temporary VM define the same name either tag is accepted on that temporary VM",
			"definitions of a faulted snippet may or may not have been registered (allowed but not required)",
			"every temporary VM is prepared with PrepareParse, as LoadAndRun and the HTTP hot-reload handler do",
		},
	})
}

func init() {
	register(&propSpec{
		ID: "C19", Level: "exploration",
		QuickRuns: 6000, QuickSecs: 120, ThorRuns: 400000, ThorSecs: 1500,
		Rule: "one evaluation = one seeded history: 1-4 (thorough: up to 6) instantiations of generic classes with 1-2 type parameters over {int, string, array, U} interleaved with 2-12 typed member writes (property or method parameter declared with the type parameter) of values {7, \"s\", [1], new U, new V} on any live instance; sequential, or in a third of the runs split over 2-3 spawned coroutines interleaved by the seeded scheduler. Every write's accept/reject outcome is compared with the same instance alone on a fresh VM and with a non-generic class declared with the concrete type. Distinct = distinct hash of (schedule, outcome vector); every case is non-trivial (at least one instantiation and two writes).",
		Assume: []string{
			"coercion rules are not modelled: the expected outcome comes from a non-generic class with the concrete declared type in the same build",
			"accept/reject is observed as 'the assignment or call threw or not'",
		},
	})
}

func init() {
	register(&propSpec{
		ID: "C20", Level: "exploration",
		QuickRuns: 4800, QuickSecs: 150, ThorRuns: 300000, ThorSecs: 1500,
		Rule: "one evaluation = one seeded case, one of: (gen) a program assembled from 1-6 parts aimed at code that ranges over Go maps (classes with defaulted properties, inheritance, dynamic properties, json_decode, array literals, ~50 array/string/reflection builtins, uncaught throw), run on fresh VMs in-process under 6 chosen map iteration orders (sorted, reverse, 4 seeded permutations per site and call) plus lines whose content the generator knows from construction (insertion order); (pair) program A that leaves state behind (open output buffers, ini, handlers, autoloaders, superglobal writes, statics, env, ...) then probe program B on another fresh VM in the same process vs B alone; (corpus) a deterministic file of tests/ run as a fresh OS process of the instrumented binary under 3 map orders comparing stdout, stderr and exit status. A difference is bisected to the one range-over-map statement that causes it. Every case is non-trivial; distinct = distinct hash of (case, reference result).",
		Assume: []string{
			"the adversary is Go map iteration order at the 110 rewritten range-over-map sites (ordered key types) and the one sync.Map.Range site; maps ranged inside the Go standard library or third-party modules are not controlled",
			"corpus files that call time, random, network, filesystem-mutating, process or sleep builtins are excluded by name; a file whose two runs under the same order differ is discarded (counted)",
			"timestamps printed by Log:: are normalised in subprocess output",
		},
	})
}
