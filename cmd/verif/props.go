package main

func init() {
	register(&propSpec{
		ID: "C09", Level: "exploration",
		QuickRuns: 24000, QuickSecs: 60, ThorRuns: 3000000, ThorSecs: 1200,
		Rule: "one evaluation = one seeded simulated run: a generated workload (capacity 0-4, 1-3 producers x 1-3 sends, 0-3 consumers, 0-2 closers, observers, sleep jitter; Go-level Channel or script-level spawn+Channel) executed on the instrumented copy of /repo under a seeded schedule. A run is non-trivial if the scheduler preempted a task inside a focus file (std/channel, std/spawn.go, node/lambda.go) or switched tasks more than twice; distinct = distinct hash of (sequence of context switches with their yield sites, recorded history).",
		Assume: []string{
			"preemption is statement-granular: interleavings inside one Go statement are not explored",
			"Go channel operations and the Go runtime are trusted",
			"capacity/blocking behaviour, fairness and len() under concurrency are not demanded by the oracle",
		},
	})
}
