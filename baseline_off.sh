#!/bin/sh
# Runs the repository's pinned test suite exactly as shipped (no hooks exist in /repo:
# all seams are inserted into scratch copies by verif-instrument).
for m in $(cat /w/out/gomods.txt); do
  MF=$(cd /repo/$m && . /w/out/goenv.sh && gomodflag)
  (cd /repo/$m && go test $MF -json -vet=off -count=1 -timeout 25m ./...)
done
